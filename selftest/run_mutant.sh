#!/bin/sh
# usage: selftest/run_mutant.sh <patch.diff> <PROP> [<PROP> ...]
# Applies the patch to a scratch copy of /repo (outside /repo and /verif, removed afterwards) and runs the
# named quick checks against it.  Prints one line per check: CAUGHT / MISSED / INCONCLUSIVE.
set -u
PATCH=$(realpath "$1"); shift
HERE=$(cd "$(dirname "$0")/.." && pwd)
SCR=$(mktemp -d /tmp/vmut.XXXXXX)
trap 'rm -rf "$SCR"' EXIT
mkdir -p "$SCR/repo" "$SCR/out"
rsync -a --exclude .git --exclude __pycache__ /repo/ "$SCR/repo/"
if ! (cd "$SCR/repo" && patch -p1 -s < "$PATCH"); then echo "PATCH-FAILED $PATCH"; exit 3; fi
rc_all=0
for P in "$@"; do
  VERIF_REPO="$SCR/repo" VERIF_OUT="$SCR/out" "$HERE/vcheck" "$P" --tier "${TIER:-quick}" > "$SCR/out/$P.log" 2>&1
  rc=$?
  case $rc in
    1) if grep -q "^VIOLATION property=$P " "$SCR/out/$P.log"; then
         echo "CAUGHT  $P $(basename "$PATCH"): $(grep -m1 -o 'witness\[[^]]*\]' "$SCR/out/$P.log")"
       else echo "BROKEN  $P $(basename "$PATCH"): $(tail -2 "$SCR/out/$P.log" | cut -c1-200)"; rc_all=1; fi;;
    0) echo "MISSED  $P $(basename "$PATCH")"; rc_all=1;;
    *) echo "INCONCLUSIVE($rc) $P $(basename "$PATCH"): $(grep -m1 INCONCLUSIVE "$SCR/out/$P.log" | cut -c1-300)"; rc_all=1;;
  esac
done
exit $rc_all
