#!/bin/sh
# Regenerates all mutants and runs each against the properties that must catch it (quick tier).
# usage: selftest/run_all.sh [name-substring]
cd "$(dirname "$0")/.." || exit 3
/venv/bin/python selftest/mutants.py > /tmp/vmut.list.$$ || exit 3
fail=0
while read -r name props; do
  case "$name" in *"${1:-}"*) ;; *) continue;; esac
  # shellcheck disable=SC2086
  selftest/run_mutant.sh "selftest/mutants/$name.diff" $props || fail=1
done < /tmp/vmut.list.$$
rm -f /tmp/vmut.list.$$
exit $fail
