"""Self-test mutants (DESIGN §1.6): realistic single-site changes to scikit-hep/vector.
Each entry: (name, [properties that must catch it], file under /repo, old text, new text[, occurrence]).
`make` writes selftest/mutants/<name>.diff (patch -p1 format)."""
import difflib
import os
import sys

REPO = os.environ.get("VERIF_REPO", "/repo")
HERE = os.path.dirname(os.path.abspath(__file__))

M = []


def m(name, props, path, old, new, occ=1):
    M.append((name, props, path, old, new, occ))


C = "src/vector/_compute/"
# ---- C01 / C02: formula-level
m("add-xy_eta-uses-theta-helper", ["C01", "C02"], C + "spatial/add.py",
  "def xy_z_xy_eta(lib, x1, y1, z1, x2, y2, eta2):\n    return xy_z_xy_z(lib, x1, y1, z1, x2, y2, z.xy_eta(lib, x2, y2, eta2))",
  "def xy_z_xy_eta(lib, x1, y1, z1, x2, y2, eta2):\n    return xy_z_xy_z(lib, x1, y1, z1, x2, y2, z.xy_theta(lib, x2, y2, eta2))")
m("planar-dot-swapped-args", ["C01", "C02", "C11"], C + "planar/dot.py",
  "    return x1 * x.rhophi(lib, rho2, phi2) + y1 * y.rhophi(lib, rho2, phi2)",
  "    return x1 * x.rhophi(lib, phi2, rho2) + y1 * y.rhophi(lib, phi2, rho2)")
m("rapidity-inverted-ratio", ["C02"], C + "lorentz/rapidity.py",
  "def xy_z_t(lib, x, y, z, t):\n    return 0.5 * lib.log((t + z) / (t - z))",
  "def xy_z_t(lib, x, y, z, t):\n    return 0.5 * lib.log((t - z) / (t + z))")
m("transform3D-transposed-entry", ["C02"], C + "spatial/transform3D.py",
  "xp = xx * x + xy * y + xz * z", "xp = xx * x + yx * y + xz * z")
m("boost_beta3-sign-zt", ["C02", "C09"], C + "lorentz/boost_beta3.py", "    zt = gamma * betaz\n", "    zt = -gamma * betaz\n")
m("gamma-inverted", ["C02", "C13"], C + "lorentz/gamma.py",
  "        t / tau.xy_z_t(lib, x, y, z, t), nan=lib.inf", "        tau.xy_z_t(lib, x, y, z, t) / t, nan=lib.inf")
# ---- C09
m("boostCM_of_p4-no-neg", ["C09"], "src/vector/_methods.py",
  '            raise TypeError(f"{p4!r} is not a 4D momentum vector")\n        return boost_p4.dispatch(self, p4.neg3D)',
  '            raise TypeError(f"{p4!r} is not a 4D momentum vector")\n        return boost_p4.dispatch(self, p4)')
m("boostZ_gamma-no-copysign", ["C09", "C02"], C + "lorentz/boostZ_gamma.py",
  "    bgam = lib.copysign(lib.sqrt(gam**2 - 1), gamma)", "    bgam = lib.sqrt(gam**2 - 1)", occ=3)
# ---- C10
m("euler-yxz-entry-sign", ["C10", "C02"], C + "spatial/rotate_euler.py",
  "    yp = (c2 * s3) * x + (c2 * c3) * y + (-s2) * z", "    yp = (c2 * s3) * x + (c2 * c3) * y + (s2) * z")
m("nautical-arg-order", ["C10", "C02"], "src/vector/_methods.py",
  'return rotate_euler.dispatch(roll, pitch, yaw, "zyx", self)', 'return rotate_euler.dispatch(yaw, pitch, roll, "zyx", self)')
m("rotate_axis-no-normalisation", ["C10", "C02"], C + "spatial/rotate_axis.py",
  "    ux = x1 / norm\n", "    ux = x1\n")
m("rotateY-sign", ["C10", "C02"], C + "spatial/rotateY.py", None, None)  # filled below

# ---- C11
m("planar-subtract-rhophi-missing-pi", ["C11", "C01"], C + "planar/subtract.py", "    diff = phi2 - phi1 + lib.pi\n", "    diff = phi2 - phi1\n")
m("cross-sign-error", ["C11", "C02"], C + "spatial/cross.py", "x1 * y2 - y1 * x2)", "x1 * y2 + y1 * x2)")
m("unit-rhophi_z-z-not-normalised", ["C11", "C01", "C02"], C + "spatial/unit.py",
  "        phi,\n        lib.nan_to_num(z / norm, nan=0, posinf=inf, neginf=-inf),", "        phi,\n        z,")
m("planar-scale-negative-no-turn", ["C11", "C01"], C + "planar/scale.py", "    turn_if_negative = -0.5 * (sign - 1) * lib.pi", "    turn_if_negative = 0.0 * (sign - 1) * lib.pi")
# ---- C12
m("equal-xy-disjunction", ["C12"], C + "planar/equal.py", "    return (x1 == x2) & (y1 == y2)", "    return ((x1 == x2) + (y1 == y2)) > 0")
m("isclose-rtol-atol-swapped", ["C12"], C + "planar/isclose.py",
  "    return lib.isclose(x1, x2, rtol, atol, equal_nan) & lib.isclose(\n        y1, y2, rtol, atol, equal_nan\n    )",
  "    return lib.isclose(x1, x2, atol, rtol, equal_nan) & lib.isclose(\n        y1, y2, atol, rtol, equal_nan\n    )")
m("lorentz-equal-ignores-t", ["C12"], C + "lorentz/equal.py",
  "            return (coord14 == coord24) & spatial_equal(", "            return (coord14 == coord14) & spatial_equal(")
# ---- C13
m("rectify-mod-pi", ["C13", "C02"], C + "planar/deltaphi.py", "    return (phi + lib.pi) % (2 * lib.pi) - lib.pi", "    return (phi + lib.pi) % (2 * lib.pi + 0.5) - lib.pi")
m("is_timelike-ge", ["C13"], C + "lorentz/is_timelike.py", "        ) > lib.absolute(tolerance)", "        ) > -lib.absolute(tolerance)")
m("t2-from-tau-no-clamp", ["C13"], C + "lorentz/t2.py",
  "    return lib.maximum(tau2.xy_z_tau(lib, x, y, z, tau) + mag2.xy_z(lib, x, y, z), 0)", "    return tau2.xy_z_tau(lib, x, y, z, tau) + mag2.xy_z(lib, x, y, z)")
m("deltaangle-no-clamp", ["C13"], C + "spatial/deltaangle.py",
  "    return lib.arccos(\n        lib.maximum(\n            -1, lib.minimum(1, dot.xy_z_xy_z(lib, x1, y1, z1, x2, y2, z2) / v1m / v2m)\n        )\n    )",
  "    return lib.arccos(dot.xy_z_xy_z(lib, x1, y1, z1, x2, y2, z2) / v1m / v2m * (1 + 1e-15))")
# ---- C03 / C16 / C18 (backends)
m("numpy-wrap4D-passthrough-writes-operand", ["C16"], "src/vector/backends/numpy.py",
  "            for name in _coordinate_class_to_names[_ttype(self)]:\n                out[name] = self[name]\n            return out.view(cls.ProjectionClass4D)\n\n        elif (\n            len(returns) == 3",
  "            for name in _coordinate_class_to_names[_ttype(self)]:\n                out[name] = self[name]\n                self.view(numpy.ndarray)[name][...] = 0.0\n            return out.view(cls.ProjectionClass4D)\n\n        elif (\n            len(returns) == 3")
m("numpy-wrap3D-wrong-column", ["C04", "C03"], "src/vector/backends/numpy.py",
  "            for name in _coordinate_class_to_names[returns[0]]:\n                out[name] = result[i]\n                i += 1\n            for name in _coordinate_class_to_names[returns[1]]:\n                out[name] = result[i]\n                i += 1\n            return out.view(cls.ProjectionClass3D)\n\n        elif (\n            len(returns) == 3\n            and isinstance(returns[0], type)\n            and issubclass(returns[0], Azimuthal)\n            and isinstance(returns[1], type)\n            and issubclass(returns[1], Longitudinal)\n            and isinstance(returns[2], type)",
  "            for name in _coordinate_class_to_names[returns[0]]:\n                out[name] = result[i]\n                i += 1\n            for name in _coordinate_class_to_names[returns[1]]:\n                out[name] = result[i - 1]\n                i += 1\n            return out.view(cls.ProjectionClass3D)\n\n        elif (\n            len(returns) == 3\n            and isinstance(returns[0], type)\n            and issubclass(returns[0], Azimuthal)\n            and isinstance(returns[1], type)\n            and issubclass(returns[1], Longitudinal)\n            and isinstance(returns[2], type)")
m("handler-priority-numpy-over-awkward", ["C05", "C03"], "src/vector/_methods.py",
  '    "vector.backends.numpy",\n    "vector.backends.sympy",\n    "vector.backends.awkward",\n]', '    "vector.backends.awkward",\n    "vector.backends.sympy",\n    "vector.backends.numpy",\n]')
m("awkward-broadcast-wrong-index", ["C03", "C18"], "src/vector/backends/awkward.py",
  "                x if isinstance(x, ak.Array) else ak.broadcast_arrays(first, x)[1]\n                for x in result\n            ]\n\n            names = []\n            arrays = []\n            if returns[0] is AzimuthalXY:\n                names.extend([\"x\", \"y\"])\n                arrays.extend([result[0], result[1]])\n            elif returns[0] is AzimuthalRhoPhi:\n                names.extend([\"rho\", \"phi\"])\n                arrays.extend([result[0], result[1]])\n\n            if returns[1] is LongitudinalZ:\n                names.append(\"z\")\n                arrays.append(result[2])\n            elif returns[1] is LongitudinalTheta:\n                names.append(\"theta\")\n                arrays.append(result[2])\n            elif returns[1] is LongitudinalEta:\n                names.append(\"eta\")\n                arrays.append(result[2])\n\n            fields = ak.fields(self)",
  "                x if isinstance(x, ak.Array) else ak.broadcast_arrays(first, x)[1]\n                for x in result\n            ]\n\n            names = []\n            arrays = []\n            if returns[0] is AzimuthalXY:\n                names.extend([\"x\", \"y\"])\n                arrays.extend([result[0], result[1]])\n            elif returns[0] is AzimuthalRhoPhi:\n                names.extend([\"rho\", \"phi\"])\n                arrays.extend([result[0], result[1]])\n\n            if returns[1] is LongitudinalZ:\n                names.append(\"z\")\n                arrays.append(result[2])\n            elif returns[1] is LongitudinalTheta:\n                names.append(\"eta\")\n                arrays.append(result[2])\n            elif returns[1] is LongitudinalEta:\n                names.append(\"eta\")\n                arrays.append(result[2])\n\n            fields = ak.fields(self)")
m("awkward-exclusion-list-loses-charge", ["C18"], "src/vector/backends/awkward.py",
  "                    if name not in _azimuthal_fields + _longitudinal_fields:", "                    if name not in _azimuthal_fields + _longitudinal_fields + (\"charge\",):")
m("numpy-reduce_sum-rho", ["C17"], "src/vector/backends/numpy.py", "    fields[\"px\"] = numpy.sum(a.x, axis=axis, keepdims=keepdims)", "    fields[\"px\"] = numpy.sum(a.rho, axis=axis, keepdims=keepdims)")
m("numpy-count_nonzero-omits-t", ["C17"], "src/vector/backends/numpy.py", "        is_nonzero = numpy.logical_or(is_nonzero, a.t2 != 0)", "        is_nonzero = numpy.logical_or(is_nonzero, a.z != 0)")
m("awkward-reduce_sum-drops-with_name", ["C17"], "src/vector/backends/awkward.py", "        with_name=layout.purelist_parameter(\"__record__\"),\n    )\n\n\ndef _reduce_count(", "    )\n\n\ndef _reduce_count(")
# ---- C04
m("to_rhophieta-uses-theta", ["C04", "C02"], "src/vector/_methods.py",
  "            lcoord = spatial.eta.dispatch(self)\n\n        return self._wrap_result(\n            type(self),\n            (planar.rho.dispatch(self), planar.phi.dispatch(self), lcoord),\n            [AzimuthalRhoPhi, LongitudinalEta, None],",
  "            lcoord = spatial.theta.dispatch(self)\n\n        return self._wrap_result(\n            type(self),\n            (planar.rho.dispatch(self), planar.phi.dispatch(self), lcoord),\n            [AzimuthalRhoPhi, LongitudinalEta, None],")
m("to_Vector4D-ignores-M", ["C04"], "src/vector/_methods.py",
  "            t_value = next(coord for coord in (tau, m, M, mass) if coord is not None)\n        elif any(coord is not None for coord in (t, e, E, energy)):\n            t_value = next(coord for coord in (t, e, E, energy) if coord is not None)\n\n        return self._wrap_result(\n            type(self),\n            (*self.azimuthal.elements, *self.longitudinal.elements, t_value),",
  "            t_value = next(coord for coord in (tau, m, mass, M) if coord is not None and coord is not M)\n        elif any(coord is not None for coord in (t, e, E, energy)):\n            t_value = next(coord for coord in (t, e, E, energy) if coord is not None)\n\n        return self._wrap_result(\n            type(self),\n            (*self.azimuthal.elements, *self.longitudinal.elements, t_value),")
m("like-4D-other-returns-3D", ["C04", "C05"], "src/vector/_methods.py",
  "        elif isinstance(other, Vector3D):\n            return self.to_Vector3D()\n        else:\n            return self.to_Vector4D()",
  "        elif isinstance(other, Vector3D):\n            return self.to_Vector3D()\n        else:\n            return self.to_Vector3D() if isinstance(self, Vector2D) else self.to_Vector4D()")
# ---- C05
m("momentumnumpy3D-projection2D-generic", ["C05"], "src/vector/backends/numpy.py", "MomentumNumpy3D.ProjectionClass2D = MomentumNumpy2D", "MomentumNumpy3D.ProjectionClass2D = VectorNumpy2D")
m("flavor_of-all", ["C05"], "src/vector/_methods.py", "    is_momentum = any(isinstance(obj, Momentum) for obj in objects)", "    is_momentum = all(isinstance(obj, Momentum) for obj in objects if isinstance(obj, Vector))")
m("isclose-no-dimension-check", ["C05"], "src/vector/_methods.py",
  "        from vector._compute.spatial import isclose\n\n        _maybe_same_dimension_error(self, other, self.isclose.__name__)\n", "        from vector._compute.spatial import isclose\n\n")
# ---- C06
m("gather-accepts-z-with-eta", ["C06"], "src/vector/backends/object.py",
  "        if \"theta\" in coordinates or \"eta\" in coordinates:\n            raise TypeError(\"specify z= or theta= or eta=, but not more than one\")\n        longitudinal = LongitudinalObjectZ(coordinates.pop(\"z\"))",
  "        if \"theta\" in coordinates:\n            raise TypeError(\"specify z= or theta= or eta=, but not more than one\")\n        coordinates.pop(\"eta\", None)\n        longitudinal = LongitudinalObjectZ(coordinates.pop(\"z\"))")
m("check_names-m-to-t", ["C06", "C14"], "src/vector/backends/awkward_constructors.py",
  "        dimension = 4\n        names.append(\"tau\")\n        columns.append(projectable[\"m\"])", "        dimension = 4\n        names.append(\"t\")\n        columns.append(projectable[\"m\"])")
m("is_type_safe-accepts-bool", ["C06"], "src/vector/backends/object.py",
  "        if not issubclass(type(value), numbers.Real) or isinstance(value, bool):", "        if not issubclass(type(value), numbers.Real):")
# ---- C14
m("pt2-returns-rho", ["C14", "C02"], "src/vector/_methods.py", "    def pt2(self) -> ScalarCollection:\n        return self.rho2", "    def pt2(self) -> ScalarCollection:\n        return self.rho")
m("momentum4D-m-setter-stores-T", ["C14", "C15"], "src/vector/backends/object.py",
  "    @m.setter\n    def m(self, m: float) -> None:\n        self.temporal = TemporalObjectTau(m)", "    @m.setter\n    def m(self, m: float) -> None:\n        self.temporal = TemporalObjectT(m)")
m("numpy-getitem-no-pt-translation", ["C14", "C19"], "src/vector/backends/numpy.py",
  "    if isinstance(where, str):\n        if is_momentum:\n            where = _repr_momentum_to_generic.get(where, where)\n        return array.view(numpy.ndarray)[where]",
  "    if isinstance(where, str):\n        if is_momentum and where != \"pt\":\n            where = _repr_momentum_to_generic.get(where, where)\n        return array.view(numpy.ndarray)[where]")
# ---- C15
m("x-setter-uses-x-for-partner", ["C15"], "src/vector/backends/object.py",
  "    @x.setter\n    def x(self, x: float) -> None:\n        self.azimuthal = AzimuthalObjectXY(x, self.y)\n\n    @property\n    def y(self) -> float:\n        return super().y\n\n    @y.setter\n    def y(self, y: float) -> None:\n        self.azimuthal = AzimuthalObjectXY(self.x, y)\n\n    @property\n    def rho(self) -> float:\n        return super().rho\n\n    @rho.setter\n    def rho(self, rho: float) -> None:\n        self.azimuthal = AzimuthalObjectRhoPhi(rho, self.phi)\n\n    @property\n    def phi(self) -> float:\n        return super().phi\n\n    @phi.setter\n    def phi(self, phi: float) -> None:\n        self.azimuthal = AzimuthalObjectRhoPhi(self.rho, phi)\n\n    @property\n    def z(self)",
  "    @x.setter\n    def x(self, x: float) -> None:\n        self.azimuthal = AzimuthalObjectXY(x, self.x)\n\n    @property\n    def y(self) -> float:\n        return super().y\n\n    @y.setter\n    def y(self, y: float) -> None:\n        self.azimuthal = AzimuthalObjectXY(self.x, y)\n\n    @property\n    def rho(self) -> float:\n        return super().rho\n\n    @rho.setter\n    def rho(self, rho: float) -> None:\n        self.azimuthal = AzimuthalObjectRhoPhi(rho, self.phi)\n\n    @property\n    def phi(self) -> float:\n        return super().phi\n\n    @phi.setter\n    def phi(self, phi: float) -> None:\n        self.azimuthal = AzimuthalObjectRhoPhi(self.rho, phi)\n\n    @property\n    def z(self)")
m("replace_data-eta-into-theta-slot", ["C15"], "src/vector/backends/object.py",
  "            obj.longitudinal = LongitudinalObjectTheta(result.theta)", "            obj.longitudinal = LongitudinalObjectTheta(result.eta)")
m("isub-calls-add", ["C15"], "src/vector/backends/object.py",
  "        return _replace_data(self, numpy.subtract(self, other))", "        return _replace_data(self, numpy.add(self, other))")
# ---- C19
m("getitem-temporal-uses-ltype-names", ["C19"], "src/vector/backends/numpy.py",
  "                *(out[x] for x in _coordinate_class_to_names[_ttype(array)])", "                *(out[x] for x in _coordinate_class_to_names[_ltype(array)])")
m("reduce-drops-dict", ["C19"], "src/vector/backends/numpy.py",
  "        new_state = (*pickled_state[2], self.__dict__)", "        new_state = (*pickled_state[2], {})")
m("object3D-array-momentum-class", ["C19"], "src/vector/backends/object.py",
  "        from vector.backends.numpy import VectorNumpy3D\n\n        return VectorNumpy3D(", "        from vector.backends.numpy import MomentumNumpy3D as VectorNumpy3D\n\n        return VectorNumpy3D(")
# ---- C20
m("dispatch-seterr-without-restore", ["C20"], C + "spatial/deltaR.py",
  "    with numpy.errstate(all=\"ignore\"):\n", "    numpy.seterr(all=\"ignore\")\n    if True:\n")
m("array-constructor-updates-global-behavior", ["C20"], "src/vector/backends/awkward_constructors.py",
  "    is_momentum, dimension, names, arrays = _check_names(akarray, fields.copy())\n", "    is_momentum, dimension, names, arrays = _check_names(akarray, fields.copy())\n    awkward.behavior.update(vector.backends.awkward.behavior)\n")
m("compute-path-silences-warnings", ["C20"], C + "lorentz/rapidity.py",
  "    with numpy.errstate(all=\"ignore\"):\n", "    import warnings\n\n    warnings.simplefilter(\"ignore\")\n    with numpy.errstate(all=\"ignore\"):\n")
# ---- C07
m("numba-binary-coord12-uses-getcoord1", ["C07"], "src/vector/backends/_numba_object.py",
  "        elif min_dimension == 3:\n            if groupname is None:\n                groupname = \"spatial\"\n            coord11 = getcoord1[numba_aztype(v1)]\n            coord12 = getcoord2[numba_aztype(v1)]",
  "        elif min_dimension == 3:\n            if groupname is None:\n                groupname = \"spatial\"\n            coord11 = getcoord1[numba_aztype(v1)]\n            coord12 = getcoord1[numba_aztype(v1)]")
m("numba-mag2-property-bound-to-mag", ["C07"], "src/vector/backends/_numba_object.py",
  'spatial_properties = ["z", "theta", "eta", "costheta", "cottheta", "mag", "mag2"]', 'spatial_properties = ["z", "theta", "eta", "costheta", "cottheta", "mag"]\nSPATIAL_ALIAS_BUG = True')
# ---- C08
m("sympylib-arctan2-swapped", ["C08"], "src/vector/_lib.py", "        return sympy.atan2(val1, val2)", "        return sympy.atan2(val2, val1)")
m("sympylib-exp-is-log", ["C08"], "src/vector/_lib.py", "        return sympy.exp(val)", "        return sympy.log(val)")


def _fill():
    # rotateY: flip one sign in the Cartesian kernel (text looked up at make time)
    p = os.path.join(REPO, C + "spatial/rotateY.py")
    s = open(p).read()
    i = s.index("def xy_z(")
    body = s[i:s.index("\n\n\n", i)]
    for k, e in enumerate(M):
        if e[0] == "rotateY-sign":
            line = [ln for ln in body.splitlines() if "return" in ln][0]
            new = line.replace("- s * x", "+ s * x") if "- s * x" in line else line.replace("+ s * z", "- s * z")
            M[k] = (e[0], e[1], e[2], line, new, 1)


def make(only=None):
    _fill()
    out = os.path.join(HERE, "mutants")
    os.makedirs(out, exist_ok=True)
    made = []
    for name, props, path, old, new, occ in M:
        if only and name not in only:
            continue
        p = os.path.join(REPO, path)
        s = open(p).read()
        if old is None or s.count(old) < occ:
            print(f"STALE mutant {name}: pattern not found {s.count(old) if old else 0}<{occ}", file=sys.stderr)
            continue
        idx = -1
        for _ in range(occ):
            idx = s.index(old, idx + 1)
        t = s[:idx] + new + s[idx + len(old):]
        diff = "".join(difflib.unified_diff(s.splitlines(True), t.splitlines(True), "a/" + path, "b/" + path))
        with open(os.path.join(out, name + ".diff"), "w") as f:
            f.write(diff)
        made.append((name, props))
    return made


if __name__ == "__main__":
    for name, props in make(sys.argv[1:] or None):
        print(name, " ".join(props))
