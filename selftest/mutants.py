"""Self-test mutants (DESIGN §1.6): realistic single-site changes to scikit-hep/vector.
Each entry: (name, [properties that must catch it], file under /repo, old text, new text[, occurrence]).
`make` writes selftest/mutants/<name>.diff (patch -p1 format)."""
import difflib
import os
import sys

REPO = os.environ.get("VERIF_REPO", "/repo")
HERE = os.path.dirname(os.path.abspath(__file__))

M = []


def m(name, props, path, old, new, occ=1):
    M.append((name, props, path, old, new, occ))


C = "src/vector/_compute/"
# ---- C01 / C02: formula-level
m("add-xy_eta-uses-theta-helper", ["C01", "C02"], C + "spatial/add.py",
  "def xy_z_xy_eta(lib, x1, y1, z1, x2, y2, eta2):\n    return xy_z_xy_z(lib, x1, y1, z1, x2, y2, z.xy_eta(lib, x2, y2, eta2))",
  "def xy_z_xy_eta(lib, x1, y1, z1, x2, y2, eta2):\n    return xy_z_xy_z(lib, x1, y1, z1, x2, y2, z.xy_theta(lib, x2, y2, eta2))")
m("planar-dot-swapped-args", ["C01", "C02", "C11"], C + "planar/dot.py",
  "    return x1 * x.rhophi(lib, rho2, phi2) + y1 * y.rhophi(lib, rho2, phi2)",
  "    return x1 * x.rhophi(lib, phi2, rho2) + y1 * y.rhophi(lib, phi2, rho2)")
m("rapidity-inverted-ratio", ["C02"], C + "lorentz/rapidity.py",
  "def xy_z_t(lib, x, y, z, t):\n    return 0.5 * lib.log((t + z) / (t - z))",
  "def xy_z_t(lib, x, y, z, t):\n    return 0.5 * lib.log((t - z) / (t + z))")
m("transform3D-transposed-entry", ["C02"], C + "spatial/transform3D.py",
  "xp = xx * x + xy * y + xz * z", "xp = xx * x + yx * y + xz * z")
m("boost_beta3-sign-zt", ["C02", "C09"], C + "lorentz/boost_beta3.py", "    zt = gamma * betaz\n", "    zt = -gamma * betaz\n")
m("gamma-inverted", ["C02", "C13"], C + "lorentz/gamma.py",
  "        t / tau.xy_z_t(lib, x, y, z, t), nan=lib.inf", "        tau.xy_z_t(lib, x, y, z, t) / t, nan=lib.inf")
# ---- C09
m("boostCM_of_p4-no-neg", ["C09"], "src/vector/_methods.py",
  '            raise TypeError(f"{p4!r} is not a 4D momentum vector")\n        return boost_p4.dispatch(self, p4.neg3D)',
  '            raise TypeError(f"{p4!r} is not a 4D momentum vector")\n        return boost_p4.dispatch(self, p4)')
m("boostZ_gamma-no-copysign", ["C09", "C02"], C + "lorentz/boostZ_gamma.py",
  "    bgam = lib.copysign(lib.sqrt(gam**2 - 1), gamma)", "    bgam = lib.sqrt(gam**2 - 1)", occ=3)
# ---- C10
m("euler-yxz-entry-sign", ["C10", "C02"], C + "spatial/rotate_euler.py",
  "    yp = (c2 * s3) * x + (c2 * c3) * y + (-s2) * z", "    yp = (c2 * s3) * x + (c2 * c3) * y + (s2) * z")
m("nautical-arg-order", ["C10", "C02"], "src/vector/_methods.py",
  'return rotate_euler.dispatch(roll, pitch, yaw, "zyx", self)', 'return rotate_euler.dispatch(yaw, pitch, roll, "zyx", self)')
m("rotate_axis-no-normalisation", ["C10", "C02"], C + "spatial/rotate_axis.py",
  "    ux = x1 / norm\n", "    ux = x1\n")
m("rotateY-sign", ["C10", "C02"], C + "spatial/rotateY.py", None, None)  # filled below


def _fill():
    # rotateY: flip one sign in the Cartesian kernel (text looked up at make time)
    p = os.path.join(REPO, C + "spatial/rotateY.py")
    s = open(p).read()
    i = s.index("def xy_z(")
    body = s[i:s.index("\n\n\n", i)]
    for k, e in enumerate(M):
        if e[0] == "rotateY-sign":
            line = [ln for ln in body.splitlines() if "return" in ln][0]
            new = line.replace("- s * x", "+ s * x") if "- s * x" in line else line.replace("+ s * z", "- s * z")
            M[k] = (e[0], e[1], e[2], line, new, 1)


def make(only=None):
    _fill()
    out = os.path.join(HERE, "mutants")
    os.makedirs(out, exist_ok=True)
    made = []
    for name, props, path, old, new, occ in M:
        if only and name not in only:
            continue
        p = os.path.join(REPO, path)
        s = open(p).read()
        if old is None or s.count(old) < occ:
            print(f"STALE mutant {name}: pattern not found {s.count(old) if old else 0}<{occ}", file=sys.stderr)
            continue
        idx = -1
        for _ in range(occ):
            idx = s.index(old, idx + 1)
        t = s[:idx] + new + s[idx + len(old):]
        diff = "".join(difflib.unified_diff(s.splitlines(True), t.splitlines(True), "a/" + path, "b/" + path))
        with open(os.path.join(out, name + ".diff"), "w") as f:
            f.write(diff)
        made.append((name, props))
    return made


if __name__ == "__main__":
    for name, props in make(sys.argv[1:] or None):
        print(name, " ".join(props))
