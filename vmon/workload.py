"""Shared workload generation: logical cases for catalogued operations and the
enumeration of coordinate-system signatures (DESIGN §2.3, §3 C01/C02)."""
from __future__ import annotations

import itertools

import mpmath
from mpmath import mpf

from . import catalog as C
from . import gen
from . import refmodel as R
from .engine import LVec, VEC_ARGS


class Draw:
    """One logical draw for an operation: exact operands, no storage chosen yet."""

    __slots__ = ("op", "dim", "self_rv", "momentum", "args", "label", "odim")

    def __init__(self, op, dim, self_rv, momentum, args, label, odim):
        self.op, self.dim, self.self_rv, self.momentum = op, dim, self_rv, momentum
        self.args, self.label, self.odim = args, label, odim


def make_draw(op, dim, r, core=False, mp=True, momentum=None, odim=None, unit_quat=False):
    """core=True restricts to the well-conditioned float64 core of DESIGN §2.5."""
    kw = dict(core=core, wide=not core)
    self_rv, lab = gen.vec(r, dim, **kw)
    if momentum is None:
        momentum = op.momentum_only or r.random() < 0.5
    args = []
    for kind in op.args:
        if kind == "vec":
            od = odim if odim is not None else r.choice(op.other_dims(dim))
            odim = od
            o, ol = gen.vec(r, od, **kw)
            if (od == dim or (dim >= 3 and od > dim)) and r.random() < (0.3 if op.group in ("delta", "predicate") else 0.1):
                # collinear stratum: the second vector is exactly k or -k times the first (spatial part); cosines of
                # +-1 are where clamps, arccos and the parallel/antiparallel predicates live
                k = gen.dyadic(r, 0.25, 4)
                sgn = r.choice([1, -1])
                c = list(self_rv.comps())
                comps = [sgn * k * c[i] for i in range(min(3, dim))]
                if od == 4:
                    comps.append(k * c[3] if dim == 4 else gen._round_dyadic(self_rv.mag * k * mpf("1.5"), 40))
                if len(comps) == od:
                    o, ol = R.RV(*comps), ("parallel" if sgn > 0 else "antiparallel")
            args.append(("vec", o))
            lab += "/" + ol
        elif kind == "p4":
            o, ol = gen.vec4(r, core=True, causal="timelike", forward=True)
            if not core and mp and r.random() < 0.3:
                # ultra-relativistic booster: t just above mag
                m = o.mag
                o = R.RV(o.x, o.y, o.z, gen._round_dyadic(m * (1 + mpf(2) ** r.choice([-8, -16, -24])), 50))
                ol += ":ultra"
            args.append(("vec", o))
            odim = 4
            lab += "/p4:" + ol
        elif kind == "beta3":
            o, ol = gen.beta3(r, core=core, mp=mp)
            args.append(("vec", o))
            odim = 3
            lab += "/b3:" + ol
        elif kind == "angle":
            args.append(("s", gen.angle(r, core)))
        elif kind == "factor":
            args.append(("s", gen.factor(r, core)))
        elif kind == "beta":
            args.append(("s", gen.beta(r, core, mp)))
        elif kind == "gamma":
            args.append(("s", gen.gamma(r, core)))
        elif kind == "tol":
            args.append(("s", gen.tol(r)))
        elif kind == "rtol":
            args.append(("s", mpf(2) ** r.choice([-4, -30])))
        elif kind == "atol":
            args.append(("s", mpf(0)))
        elif kind == "lonz":
            args.append(("s", r.choice([1, -1]) * gen.dyadic(r, 0.1, 10)))
        elif kind == "lontheta":
            args.append(("s", gen.dyadic(r, 0.3, 2.8)))
        elif kind == "loneta":
            args.append(("s", gen.dyadic(r, -2, 2)))
        elif kind == "tt":
            args.append(("s", gen.dyadic(r, 20, 40)))
        elif kind == "ttau":
            args.append(("s", gen.dyadic(r, 0.5, 5)))
        elif kind in ("mat2", "mat3", "mat4"):
            args.append(("s", gen.matrix(r, int(kind[-1]))))
        elif kind == "quat":
            args.append(("s", gen.quaternion(r, unit=(unit_quat or r.random() < 0.7))))
        elif kind == "order":
            args.append(("order", None))
        else:
            raise ValueError(kind)
    if op.group == "equality":
        # a coordinate that is exactly zero sits on the decision boundary of a relative tolerance (atol = 0): the
        # comparison is then decided by rounding in whichever system it is carried out -- use non-zero components
        if any(c == 0 for c in self_rv.comps()):
            self_rv = R.RV(*[c if c != 0 else gen.dyadic(r, 0.1, 10) for c in self_rv.comps()])
        # clear-cut operands: a tiny rescaling of self (close), a vector that differs from self in one place only (one
        # component mirrored, or the transverse / longitudinal / temporal part scaled by 1.5: unequal and not close in
        # every coordinate system, yet equal in all coordinates but one or two of any given system), or an unrelated
        # vector (far)
        kind_ = r.random()
        if kind_ < 0.4:
            o = R.op_scale(self_rv, 1 + mpf(2) ** -12)
            args[0] = ("vec", o)
            lab += "/near"
        elif kind_ < 0.7 and args[0][0] == "vec" and args[0][1].dim == self_rv.dim:
            c = list(self_rv.comps())
            n_ = max(abs(x) for x in c)
            choices = [("mirror", i) for i in range(min(3, len(c))) if abs(c[i]) >= mpf("0.3") * n_]
            choices += [("transverse", None)]
            # (scaling z alone is *not* such a change: close to the axis theta and eta hardly notice it, and isclose
            #  compares whatever coordinates are stored)
            if len(c) == 4 and abs(c[3]) >= mpf("0.8") * n_:
                # (with |t| well below |p| a tau-stored vector hardly notices t: tau**2 = t**2 - p**2)
                choices.append(("temporal", None))
            how, i = r.choice(choices)
            if how == "mirror":
                c[i] = -c[i]
            elif how == "transverse":
                c[0], c[1] = c[0] * mpf("1.5"), c[1] * mpf("1.5")
            elif how == "longitudinal":
                c[2] = c[2] * mpf("1.5")
            else:
                c[3] = c[3] * mpf("1.5")
            args[0] = ("vec", R.RV(*c))
            lab += "/one-place:" + how
        else:
            # "far" has to be far in every coordinate system: a pair 6 % apart in rho and phi can be 50 % apart in y
            # (false alarm of the thorough tier, seed 2).  Euclidean distance of at least 3/4 of the larger length.
            def dist_ok(o_):
                if o_.dim != self_rv.dim:
                    return True
                d2 = sum((p_ - q_) ** 2 for p_, q_ in zip(o_.comps(), self_rv.comps()))
                n2 = max(sum(c * c for c in o_.comps()), sum(c * c for c in self_rv.comps()))
                return d2 >= mpf("0.5625") * n2
            k_, a_ = args[0]
            guard = 0
            while k_ == "vec" and not dist_ok(a_) and guard < 20:
                guard += 1
                a_, _l = gen.vec(r, a_.dim, **kw)
            if k_ == "vec" and not dist_ok(a_):
                a_ = R.RV(*[-2 * c for c in self_rv.comps()])
            args[0] = (k_, a_)
            lab += "/far"
    return Draw(op, dim, self_rv, momentum, args, lab, odim)


def systems_for(draw):
    """All (self system, other system, order) combinations for a draw."""
    selfs = R.SYSTEMS[draw.dim]
    others = [None]
    for kind, a in draw.args:
        if kind == "vec":
            others = R.SYSTEMS[a.dim]
    orders = [None]
    if any(k == "order" for k, _ in draw.args):
        orders = list(R.EULER_ORDERS)
    return itertools.product(selfs, others, orders)


def n_signatures(op, dim):
    n = len(R.SYSTEMS[dim])
    if any(k in VEC_ARGS for k in op.args):
        ods = op.other_dims(dim)
        n *= max(len(R.SYSTEMS[d]) for d in ods)
    if "order" in op.args:
        n *= 12
    return n


def instantiate(draw, s_self, s_other, order, flip_momentum=False, upper=False):
    """LVec operands for one signature; raises R.NotRepresentable."""
    self_l = LVec(draw.self_rv, s_self, draw.momentum)
    self_l.exact_coords()
    args = []
    for kind, a in draw.args:
        if kind == "vec":
            l = LVec(a, s_other, (not draw.momentum) if flip_momentum else draw.momentum)
            l.exact_coords()
            args.append(l)
        elif kind == "order":
            args.append(order.upper() if upper else order)
        else:
            args.append(a)
    return self_l, args


def cost_table(groups=None, dims=(2, 3, 4)):
    """[(op name, dim, n signatures)] for sharding"""
    out = []
    for op in C.OPS.values():
        if groups and op.group not in groups:
            continue
        for d in op.dims:
            if d in dims:
                out.append((op.name, d, n_signatures(op, d)))
    return out


def pack(items, nbins):
    """greedy bin packing of (key..., cost) tuples"""
    bins = [[0, []] for _ in range(nbins)]
    for it in sorted(items, key=lambda t: -t[-1]):
        b = min(bins, key=lambda b: b[0])
        b[0] += it[-1]
        b[1].append(it[:-1])
    return [b[1] for b in bins if b[1]]


def make_batch(op, dim, r, n, odim=None, momentum=None, core=True, mp=False):
    """n draws that share their scalar arguments (so that plain-number scalars can be
    broadcast against an array of vectors) but have independent vector operands."""
    first = make_draw(op, dim, r, core=core, mp=mp, odim=odim, momentum=momentum)
    out = [first]
    guard = 0
    while len(out) < n and guard < 50 * n:
        guard += 1
        d = make_draw(op, dim, r, core=core, mp=mp, odim=first.odim, momentum=first.momentum)
        args = []
        for (k0, a0), (k1, a1) in zip(first.args, d.args):
            args.append((k1, a1) if k1 == "vec" else (k0, a0))
        d.args = args
        out.append(d)
    return out
