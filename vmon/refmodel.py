"""Independent executable model of the documented semantics (DESIGN §2.2).

Written from docs/index.md and the Protocol docstrings; imports nothing from
`vector`.  All arithmetic on plain `mpmath.mpf` at 60 digits.  A `RV` holds
Cartesian components; every operation is defined the textbook way on them.
"""
from __future__ import annotations

import mpmath
from mpmath import mp, mpf

mp.dps = 60

PI = +mp.pi
ZERO = mpf(0)

AZ = ("xy", "rhophi")
LON = ("z", "theta", "eta")
TMP = ("t", "tau")

SYSTEMS = {
    2: [(a,) for a in AZ],
    3: [(a, l) for a in AZ for l in LON],
    4: [(a, l, t) for a in AZ for l in LON for t in TMP],
}
ALL_SYSTEMS = SYSTEMS[2] + SYSTEMS[3] + SYSTEMS[4]

COORD_NAMES = {"xy": ("x", "y"), "rhophi": ("rho", "phi"), "z": ("z",), "theta": ("theta",),
               "eta": ("eta",), "t": ("t",), "tau": ("tau",)}


def sysname(system):
    return "_".join(system)


def field_names(system):
    out = []
    for part in system:
        out.extend(COORD_NAMES[part])
    return tuple(out)


class NotRepresentable(Exception):
    pass


class Undefined(Exception):
    """The documented definition is not finite / not defined for these operands."""


class RV:
    __slots__ = ("dim", "x", "y", "z", "t")

    def __init__(self, x, y, z=None, t=None):
        self.x = mpf(x)
        self.y = mpf(y)
        self.z = None if z is None else mpf(z)
        self.t = None if t is None else mpf(t)
        self.dim = 2 if z is None else (3 if t is None else 4)

    def comps(self):
        return (self.x, self.y, self.z, self.t)[: self.dim]

    def __repr__(self):
        return "RV(" + ", ".join(mpmath.nstr(c, 20) for c in self.comps()) + ")"

    # derived quantities
    @property
    def rho2(self):
        return self.x**2 + self.y**2

    @property
    def rho(self):
        return mpmath.sqrt(self.rho2)

    @property
    def phi(self):
        if self.x == 0 and self.y == 0:
            return ZERO
        return mpmath.atan2(self.y, self.x)

    @property
    def mag2(self):
        return self.rho2 + self.z**2

    @property
    def mag(self):
        return mpmath.sqrt(self.mag2)

    @property
    def theta(self):
        m = self.mag
        if m == 0:
            raise Undefined("theta of zero vector")
        return mpmath.acos(max(mpf(-1), min(mpf(1), self.z / m)))

    @property
    def eta(self):
        if self.rho == 0:
            raise Undefined("eta on the z axis")
        return mpmath.asinh(self.z / self.rho)

    @property
    def costheta(self):
        m = self.mag
        if m == 0:
            raise Undefined("costheta of zero vector")
        return self.z / m

    @property
    def cottheta(self):
        if self.rho == 0:
            raise Undefined("cottheta on the z axis")
        return self.z / self.rho

    @property
    def t2(self):
        return self.t**2

    @property
    def tau2(self):
        return self.t**2 - self.mag2

    @property
    def tau(self):
        s = self.tau2
        r = mpmath.sqrt(abs(s))
        return r if s >= 0 else -r

    @property
    def beta(self):
        if self.t == 0:
            raise Undefined("beta with t=0")
        return self.mag / self.t

    @property
    def gamma(self):
        tau = self.tau
        if tau == 0:
            raise Undefined("gamma on the light cone")
        return self.t / tau

    @property
    def rapidity(self):
        a, b = self.t + self.z, self.t - self.z
        if b == 0 or a / b <= 0:
            raise Undefined("rapidity")
        return mpmath.log(a / b) / 2

    @property
    def Et2(self):
        if self.mag2 == 0:
            raise Undefined("Et of zero momentum")
        return self.t**2 * self.rho2 / self.mag2

    @property
    def Et(self):
        # documented: E_T = E sin(theta)  (carries the sign of E)
        m = self.mag
        if m == 0:
            raise Undefined("Et of zero momentum")
        return self.t * self.rho / m

    @property
    def Mt2(self):
        return self.t**2 - self.z**2

    @property
    def Mt(self):
        s = self.Mt2
        if s < 0:
            raise Undefined("Mt of t^2 < z^2")
        return mpmath.sqrt(s)


# ---------------------------------------------------------------------------
# coordinate systems

def from_coords(system, coords):
    """Stored coordinates (in `system`) -> RV, by the documented relations."""
    c = [mpf(v) for v in coords]
    az = system[0]
    if az == "xy":
        x, y = c[0], c[1]
        rho = mpmath.sqrt(x * x + y * y)
    else:
        rho, phi = c[0], c[1]
        x, y = rho * mpmath.cos(phi), rho * mpmath.sin(phi)
    if len(system) == 1:
        return RV(x, y)
    lon = system[1]
    if lon == "z":
        z = c[2]
    elif lon == "theta":
        tt = mpmath.tan(c[2])
        if tt == 0:
            raise NotRepresentable("theta = 0 or pi")
        z = rho / tt
    else:
        z = rho * mpmath.sinh(c[2])
    if len(system) == 2:
        return RV(x, y, z)
    tmp = system[2]
    if tmp == "t":
        t = c[3]
    else:
        tau = c[3]
        s = (tau * tau if tau >= 0 else -tau * tau) + x * x + y * y + z * z
        t = mpmath.sqrt(max(s, ZERO))
    return RV(x, y, z, t)


def representable(rv, system, margin=mpf(0)):
    """Is the exact vector representable in `system` (C01 domain)?"""
    if len(system) >= 2 and system[1] in ("theta", "eta"):
        if not rv.rho > margin:
            return False
    if len(system) == 3 and system[2] == "tau":
        if rv.t < 0:
            return False
    return True


def to_coords(rv, system):
    """RV -> stored coordinates in `system` (raises NotRepresentable)."""
    if len(system) != rv.dim - 1:
        raise ValueError("dimension mismatch")
    if not representable(rv, system):
        raise NotRepresentable(sysname(system))
    out = []
    if system[0] == "xy":
        out += [rv.x, rv.y]
    else:
        out += [rv.rho, rv.phi]
    if rv.dim >= 3:
        lon = system[1]
        if lon == "z":
            out.append(rv.z)
        elif lon == "theta":
            out.append(mpmath.atan2(rv.rho, rv.z))
        else:
            out.append(mpmath.asinh(rv.z / rv.rho))
    if rv.dim == 4:
        out.append(rv.t if system[2] == "t" else rv.tau)
    return tuple(out)


# ---------------------------------------------------------------------------
# helpers

def wrap_pi(a):
    """wrap into [-pi, pi]"""
    r = (a + PI) % (2 * PI) - PI
    return r


def angdiff(a, b):
    """smallest circular distance between two angles"""
    return abs(wrap_pi(a - b))


def _mat3_apply(m, v):
    x, y, z = v.x, v.y, v.z
    r = [m[i][0] * x + m[i][1] * y + m[i][2] * z for i in range(3)]
    return RV(r[0], r[1], r[2], v.t)


def Rx(a):
    c, s = mpmath.cos(a), mpmath.sin(a)
    return [[1, 0, 0], [0, c, -s], [0, s, c]]


def Ry(a):
    c, s = mpmath.cos(a), mpmath.sin(a)
    return [[c, 0, s], [0, 1, 0], [-s, 0, c]]


def Rz(a):
    c, s = mpmath.cos(a), mpmath.sin(a)
    return [[c, -s, 0], [s, c, 0], [0, 0, 1]]


_R = {"x": Rx, "y": Ry, "z": Rz}


def matmul3(a, b):
    return [[sum(a[i][k] * b[k][j] for k in range(3)) for j in range(3)] for i in range(3)]


EULER_ORDERS = ("zxz", "xyx", "yzy", "zyz", "xzx", "yxy", "xyz", "yzx", "zxy", "xzy", "zyx", "yxz")


def euler_matrix(phi, theta, psi, order):
    """ROOT EulerAngles convention generalised to every order 'abc':
    R = R_a(-psi) . R_b(-theta) . R_c(-phi)   (DESIGN §2.2)."""
    a, b, c = order.lower()
    return matmul3(matmul3(_R[a](-psi), _R[b](-theta)), _R[c](-phi))


# ---------------------------------------------------------------------------
# operations (all return RV / mpf / bool, raise Undefined outside the definition)

def op_dot(a, b):
    if a.dim == 2:
        return a.x * b.x + a.y * b.y
    if a.dim == 3:
        return a.x * b.x + a.y * b.y + a.z * b.z
    return a.t * b.t - a.x * b.x - a.y * b.y - a.z * b.z


def op_add(a, b):
    return RV(*[p + q for p, q in zip(a.comps(), b.comps())])


def op_subtract(a, b):
    return RV(*[p - q for p, q in zip(a.comps(), b.comps())])


def op_scale(a, f, ncomp=None):
    f = mpf(f)
    n = a.dim if ncomp is None else ncomp
    c = list(a.comps())
    for i in range(n):
        c[i] = c[i] * f
    return RV(*c)


def op_cross(a, b):
    return RV(a.y * b.z - a.z * b.y, a.z * b.x - a.x * b.z, a.x * b.y - a.y * b.x)


def op_unit(a):
    if a.dim == 2:
        n = a.rho
    elif a.dim == 3:
        n = a.mag
    else:
        # "tau == 1 for 4D"; a spacelike vector has negative tau in this library's convention and is normalised to
        # tau == -1 (same direction, |t**2 - mag**2| == 1); a lightlike vector has no unit vector
        n = abs(a.tau)
        if n == 0:
            raise Undefined("unit of a lightlike 4-vector")
    if n == 0:
        raise Undefined("unit of zero vector")
    return RV(*[c / n for c in a.comps()])


def op_deltaphi(a, b):
    return wrap_pi(a.phi - b.phi)


def op_deltaeta(a, b):
    return a.eta - b.eta


def op_deltaR2(a, b):
    return op_deltaphi(a, b) ** 2 + op_deltaeta(a, b) ** 2


def op_deltaR(a, b):
    return mpmath.sqrt(op_deltaR2(a, b))


def op_deltaangle(a, b):
    ma, mb = a.mag, b.mag
    if ma == 0 or mb == 0:
        raise Undefined("deltaangle with zero vector")
    c = (a.x * b.x + a.y * b.y + a.z * b.z) / ma / mb
    return mpmath.acos(max(mpf(-1), min(mpf(1), c)))


def op_deltaRapidityPhi2(a, b):
    return op_deltaphi(a, b) ** 2 + (a.rapidity - b.rapidity) ** 2


def op_deltaRapidityPhi(a, b):
    return mpmath.sqrt(op_deltaRapidityPhi2(a, b))


def op_rotateZ(a, angle):
    angle = mpf(angle)
    c, s = mpmath.cos(angle), mpmath.sin(angle)
    return RV(c * a.x - s * a.y, s * a.x + c * a.y, a.z, a.t)


def op_rotateX(a, angle):
    return _mat3_apply(Rx(mpf(angle)), a)


def op_rotateY(a, angle):
    return _mat3_apply(Ry(mpf(angle)), a)


def op_rotate_axis(a, axis, angle):
    n = axis.mag
    if n == 0:
        raise Undefined("rotate_axis about the zero vector")
    ux, uy, uz = axis.x / n, axis.y / n, axis.z / n
    angle = mpf(angle)
    c, s = mpmath.cos(angle), mpmath.sin(angle)
    # Rodrigues: v c + (u x v) s + u (u.v)(1-c)
    d = ux * a.x + uy * a.y + uz * a.z
    cx = uy * a.z - uz * a.y
    cy = uz * a.x - ux * a.z
    cz = ux * a.y - uy * a.x
    return RV(a.x * c + cx * s + ux * d * (1 - c),
              a.y * c + cy * s + uy * d * (1 - c),
              a.z * c + cz * s + uz * d * (1 - c), a.t)


def op_rotate_euler(a, phi, theta, psi, order="zxz"):
    return _mat3_apply(euler_matrix(mpf(phi), mpf(theta), mpf(psi), order), a)


def op_rotate_nautical(a, yaw, pitch, roll):
    return op_rotate_euler(a, roll, pitch, yaw, "zyx")


def op_rotate_quaternion(a, u, i, j, k):
    """v -> q v q* for q = u + i I + j J + k K (ROOT Quaternion; |q|^2 scaling if not unit)."""
    u, i, j, k = mpf(u), mpf(i), mpf(j), mpf(k)

    def qmul(p, q):
        a1, b1, c1, d1 = p
        a2, b2, c2, d2 = q
        return (a1 * a2 - b1 * b2 - c1 * c2 - d1 * d2,
                a1 * b2 + b1 * a2 + c1 * d2 - d1 * c2,
                a1 * c2 - b1 * d2 + c1 * a2 + d1 * b2,
                a1 * d2 + b1 * c2 - c1 * b2 + d1 * a2)

    q = (u, i, j, k)
    qc = (u, -i, -j, -k)
    r = qmul(qmul(q, (ZERO, a.x, a.y, a.z)), qc)
    return RV(r[1], r[2], r[3], a.t)


def op_transform2D(a, m):
    return RV(m["xx"] * a.x + m["xy"] * a.y, m["yx"] * a.x + m["yy"] * a.y, a.z, a.t)


def op_transform3D(a, m):
    r = [m[r_ + "x"] * a.x + m[r_ + "y"] * a.y + m[r_ + "z"] * a.z for r_ in "xyz"]
    return RV(r[0], r[1], r[2], a.t)


def op_transform4D(a, m):
    r = [m[r_ + "x"] * a.x + m[r_ + "y"] * a.y + m[r_ + "z"] * a.z + m[r_ + "t"] * a.t for r_ in "xyzt"]
    return RV(*r)


def op_boost_beta3(a, b):
    """Active boost: a particle at rest acquires velocity b."""
    b2 = b.x**2 + b.y**2 + b.z**2
    if b2 >= 1:
        raise Undefined("|beta| >= 1")
    g = 1 / mpmath.sqrt(1 - b2)
    bp = b.x * a.x + b.y * a.y + b.z * a.z
    k = (g - 1) * bp / b2 if b2 != 0 else ZERO
    return RV(a.x + k * b.x + g * b.x * a.t, a.y + k * b.y + g * b.y * a.t,
              a.z + k * b.z + g * b.z * a.t, g * (a.t + bp))


def op_to_beta3(a):
    if a.t == 0:
        raise Undefined("to_beta3 with t = 0")
    return RV(a.x / a.t, a.y / a.t, a.z / a.t)


def op_boost_p4(a, p):
    if not (p.t > 0 and p.tau2 > 0):
        raise Undefined("booster not forward timelike")
    return op_boost_beta3(a, op_to_beta3(p))


def _axis(i, b):
    c = [ZERO, ZERO, ZERO]
    c[i] = mpf(b)
    return RV(*c)


def op_boost_axis_beta(a, i, beta):
    return op_boost_beta3(a, _axis(i, beta))


def gamma_to_beta(gamma):
    gamma = mpf(gamma)
    if abs(gamma) < 1:
        raise Undefined("|gamma| < 1")
    b = mpmath.sqrt(1 - 1 / gamma**2)
    return b if gamma >= 0 else -b


def op_boost_axis_gamma(a, i, gamma):
    return op_boost_beta3(a, _axis(i, gamma_to_beta(gamma)))


def op_neg(a, n):
    return op_scale(a, -1, n)


def cos_between(a, b):
    if a.dim == 2:
        na, nb, d = a.rho, b.rho, a.x * b.x + a.y * b.y
    else:
        na, nb, d = a.mag, b.mag, a.x * b.x + a.y * b.y + a.z * b.z
    if na == 0 or nb == 0:
        raise Undefined("angle with zero vector")
    return d / na / nb


def project(a, dim):
    c = a.comps()
    return RV(*c[:dim])
