"""Entry point:  python -m vmon.main C07 [--tier quick|thorough] [--replay file]

Runs the property's shards in parallel subprocesses (subprocess.run with a
timeout each; never multiprocessing.Pool), merges what they observed, writes
the evidence file and prints the verdict (DESIGN §1.3).
"""
from __future__ import annotations

import argparse
import concurrent.futures as cf
import importlib
import json
import os
import shutil
import subprocess
import sys
import tempfile
import time

from .verdict import VERIF, Result, finish

PY = sys.executable


def _env():
    env = dict(os.environ)
    env["PYTHONHASHSEED"] = "0"
    env.setdefault("SCIKIT_HEP_VECTOR_VERIF", "1")
    env["PYTHONPATH"] = VERIF + os.pathsep + env.get("PYTHONPATH", "")
    env.setdefault("NUMBA_DISABLE_JIT", "0")
    return env


def run_one_shard(prop, tier, seed, spec, out, timeout, extra_env=None):
    env = _env()
    if extra_env:
        env.update(extra_env)
    cmd = [PY, "-X", "faulthandler", "-m", "vmon.main", prop, "--tier", tier, "--seed", str(seed),
           "--shard-spec", json.dumps(spec), "--out", out]
    try:
        p = subprocess.run(cmd, cwd=VERIF, env=env, capture_output=True, text=True, timeout=timeout)
    except subprocess.TimeoutExpired:
        return None, f"shard timed out after {timeout}s: {json.dumps(spec)[:200]}"
    if p.returncode != 0 or not os.path.exists(out):
        return None, f"shard crashed rc={p.returncode}: {json.dumps(spec)[:200]} :: {(p.stderr or p.stdout)[-1500:]}"
    with open(out) as f:
        return Result.from_json(json.load(f)), None


def main(argv=None):
    ap = argparse.ArgumentParser()
    ap.add_argument("prop")
    ap.add_argument("--tier", default=os.environ.get("VERIF_TIER", "quick"), choices=["quick", "thorough"])
    ap.add_argument("--seed", type=int, default=int(os.environ.get("VERIF_SEED", "0")))
    ap.add_argument("--shard-spec")
    ap.add_argument("--out")
    ap.add_argument("--replay")
    ap.add_argument("--jobs", type=int, default=int(os.environ.get("VERIF_JOBS", "16")))
    ap.add_argument("--inline", action="store_true", help="run shards in this process (debugging)")
    a = ap.parse_args(argv)
    prop = a.prop.upper()
    mod = importlib.import_module(f"vmon.props.{prop.lower()}")

    if a.shard_spec is not None:
        from . import bind
        if not getattr(mod, "NO_BIND", False):
            bind.bind()
        spec = json.loads(a.shard_spec)
        registered = isinstance(spec, dict) and spec.get("_registered")
        if registered:
            import vector
            vector.register_awkward()
        res = mod.run_shard(spec, a.tier, a.seed + 100003 * int(spec.get("_rep", 0)) if isinstance(spec, dict) else a.seed)
        res.count("shards_with_awkward_registered" if registered else "shards_without_awkward_registration")
        with open(a.out, "w") as f:
            json.dump(res.to_json(), f, default=str)
        return 0

    if a.replay:
        with open(a.replay) as f:
            rep = json.load(f)
        from . import bind
        bind.bind()
        specs = []
        for v in rep.get("violations", []):
            s = v.get("spec")
            if s is not None and s not in specs:
                specs.append(s)
        total = Result()
        for s in specs:
            if isinstance(s, dict) and s.get("_registered"):
                import vector
                vector.register_awkward()  # (cannot be undone: a replay with mixed specs runs the remaining ones registered)
            total.merge(mod.run_shard(s, rep.get("tier", a.tier), rep.get("seed", a.seed)))
        for v in total.violations:
            print("REPLAYED", json.dumps(v, default=str)[:1500])
        print(f"replay: {len(total.violations)} violation records reproduced from {len(specs)} shard specs")
        return 1 if total.violations else 0

    t0 = time.time()
    specs = mod.plan(a.tier, a.seed)
    reps = getattr(mod, "REPS", {}).get(a.tier, 1)
    if reps > 1:
        # value-sampling checks whose lattice is exhaustive in both tiers: the thorough tier repeats the whole lattice
        # with fresh value draws (the shard derives its generators from seed + 100003 * repetition)
        specs = [dict(s, _rep=k) for k in range(reps) for s in specs]
    if getattr(mod, "AWKWARD_REGISTRATION_MIX", False):
        # vector.register_awkward() is a documented configuration of the Awkward backend (behaviors in Awkward's global
        # registry, arrays carry behavior=None): alternate shards (shifted by seed and repetition) run in that mode
        # (a plan may fix the mode of a shard itself by giving "_registered"; it is then shifted by seed and repetition too)
        specs = [dict(s, _registered=(((i if "_registered" not in s else int(s["_registered"])) + a.seed + int(s.get("_rep", 0))) % 2 == 1))
                 if isinstance(s, dict) else s for i, s in enumerate(specs)]
    timeout = getattr(mod, "SHARD_TIMEOUT", {"quick": 600, "thorough": 3600})[a.tier]
    total = Result()
    work = tempfile.mkdtemp(prefix=f"vmon-{prop}-")
    try:
        if a.inline:
            from . import bind
            bind.bind()
            for s in specs:
                total.merge(mod.run_shard(s, a.tier, a.seed + 100003 * int(s.get("_rep", 0)) if isinstance(s, dict) else a.seed))
        else:
            with cf.ThreadPoolExecutor(max_workers=a.jobs) as ex:
                futs = {}
                for i, s in enumerate(specs):
                    out = os.path.join(work, f"shard{i}.json")
                    extra_env = s.get("env") if isinstance(s, dict) else None
                    futs[ex.submit(run_one_shard, prop, a.tier, a.seed, s, out, timeout, extra_env)] = s
                for fu in cf.as_completed(futs):
                    res, problem = fu.result()
                    if problem:
                        total.inconc(problem)
                    else:
                        for v in res.violations:
                            v.setdefault("spec", futs[fu])
                        total.merge(res)
    finally:
        shutil.rmtree(work, ignore_errors=True)
    extra = {}
    if hasattr(mod, "finalize"):
        extra = mod.finalize(total, a.tier, a.seed) or {}
    wall = time.time() - t0
    from . import bind  # tree identity only; no import of vector in the parent
    return finish(prop, a.tier, a.seed, getattr(mod, "LEVEL", "exploration"), total, mod.RULE,
                  getattr(mod, "ASSUMPTIONS", []), wall, extra_cov=extra,
                  explanation=getattr(mod, "EXPLANATION", None))


if __name__ == "__main__":
    sys.exit(main())
