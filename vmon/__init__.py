"""Runtime-monitoring framework for scikit-hep/vector (see /verif/DESIGN.md)."""
