"""60-digit numbers and a NumPy-like `lib` so that the *real* compute layer,
dispatch, `_wrap_result`, setters and operators of the object backend run at
mpmath precision (DESIGN §2.1).

`Q` wraps an `mpmath.mpf` and gives it NumPy's semantics at the singular
points the compute layer relies on (x/0 -> inf/nan instead of
ZeroDivisionError, sqrt(<0) -> nan, ...).  `MpLib` implements the NumPy names
the compute layer uses.  A *witness* records whether a clamp / NaN replacement
/ sign convention was exercised during an evaluation.
"""
from __future__ import annotations

import numbers

import mpmath
from mpmath import mp, mpf

mp.dps = 60

_NAN = mpf("nan")
_INF = mpf("inf")


def _m(x):
    """anything numeric -> mpf"""
    if type(x) is Q:
        return x.v
    if isinstance(x, mpf):
        return x
    if isinstance(x, bool):
        return mpf(int(x))
    if isinstance(x, (int, float)):
        return mpf(x)
    if isinstance(x, numbers.Real):
        return mpf(float(x))
    return NotImplemented


def _isnan(v):
    return v != v


class Witness:
    """Counts uses of conventions that SymPy cannot express (C08) and labels
    singular evaluations (C01/C02)."""

    __slots__ = ("events",)

    def __init__(self):
        self.events = {}

    def hit(self, name):
        self.events[name] = self.events.get(name, 0) + 1

    def reset(self):
        self.events = {}

    def any(self):
        return bool(self.events)


WITNESS = Witness()


class Q:
    __slots__ = ("v",)
    __array_priority__ = 1000

    def __init__(self, x=0):
        v = _m(x) if not isinstance(x, str) else mpf(x)
        if v is NotImplemented:
            raise TypeError(f"cannot make Q from {type(x)}")
        self.v = v

    # -- conversions
    def __float__(self):
        return float(self.v)

    def __int__(self):
        return int(self.v)

    def __repr__(self):
        return f"Q({mpmath.nstr(self.v, 25)})"

    def __hash__(self):
        return hash(self.v)

    def __bool__(self):
        return self.v != 0

    # -- arithmetic
    def __add__(self, o):
        o = _m(o)
        if o is NotImplemented:
            return NotImplemented
        return Q(self.v + o)

    __radd__ = __add__

    def __sub__(self, o):
        o = _m(o)
        if o is NotImplemented:
            return NotImplemented
        return Q(self.v - o)

    def __rsub__(self, o):
        o = _m(o)
        if o is NotImplemented:
            return NotImplemented
        return Q(o - self.v)

    def __mul__(self, o):
        o = _m(o)
        if o is NotImplemented:
            return NotImplemented
        return Q(self.v * o)

    __rmul__ = __mul__

    @staticmethod
    def _div(a, b):
        if b == 0:
            WITNESS.hit("div0")
            if a == 0 or _isnan(a):
                return Q(_NAN)
            return Q(_INF if a > 0 else -_INF)
        if _isnan(a) or _isnan(b):
            return Q(_NAN)
        if mpmath.isinf(a) and mpmath.isinf(b):
            return Q(_NAN)
        return Q(a / b)

    def __truediv__(self, o):
        o = _m(o)
        if o is NotImplemented:
            return NotImplemented
        return Q._div(self.v, o)

    def __rtruediv__(self, o):
        o = _m(o)
        if o is NotImplemented:
            return NotImplemented
        return Q._div(o, self.v)

    @staticmethod
    def _mod(a, b):
        if b == 0 or _isnan(a) or _isnan(b) or mpmath.isinf(a):
            return Q(_NAN)
        if mpmath.isinf(b):
            return Q(a)
        return Q(a % b)

    def __mod__(self, o):
        o = _m(o)
        if o is NotImplemented:
            return NotImplemented
        return Q._mod(self.v, o)

    def __rmod__(self, o):
        o = _m(o)
        if o is NotImplemented:
            return NotImplemented
        return Q._mod(o, self.v)

    @staticmethod
    def _pow(a, b):
        if _isnan(a) or _isnan(b):
            return Q(_NAN)
        if b == 0:
            return Q(1)
        if a == 0:
            if b < 0:
                WITNESS.hit("div0")
                return Q(_INF)
            return Q(0)
        if a < 0 and b != int(b):
            WITNESS.hit("pow_neg")
            return Q(_NAN)
        if b == int(b) and abs(b) < 1024:
            return Q(a ** int(b))
        return Q(mpmath.power(a, b))

    def __pow__(self, o):
        o = _m(o)
        if o is NotImplemented:
            return NotImplemented
        return Q._pow(self.v, o)

    def __rpow__(self, o):
        o = _m(o)
        if o is NotImplemented:
            return NotImplemented
        return Q._pow(o, self.v)

    def __neg__(self):
        return Q(-self.v)

    def __pos__(self):
        return self

    def __abs__(self):
        return Q(abs(self.v))

    # -- comparisons (NaN compares false, like IEEE)
    def __eq__(self, o):
        o = _m(o)
        if o is NotImplemented:
            return NotImplemented
        return bool(self.v == o)

    def __ne__(self, o):
        o = _m(o)
        if o is NotImplemented:
            return NotImplemented
        return not bool(self.v == o)

    def __lt__(self, o):
        o = _m(o)
        if o is NotImplemented:
            return NotImplemented
        return bool(self.v < o)

    def __le__(self, o):
        o = _m(o)
        if o is NotImplemented:
            return NotImplemented
        return bool(self.v <= o)

    def __gt__(self, o):
        o = _m(o)
        if o is NotImplemented:
            return NotImplemented
        return bool(self.v > o)

    def __ge__(self, o):
        o = _m(o)
        if o is NotImplemented:
            return NotImplemented
        return bool(self.v >= o)


numbers.Real.register(Q)


def _q(x):
    return x if type(x) is Q else Q(x)


def _fin(v):
    return not (_isnan(v) or mpmath.isinf(v))


class MpLib:
    """The NumPy names the compute layer uses, on `Q` (DESIGN §2.1)."""

    def __repr__(self):
        return "MpLib(dps=60)"

    @property
    def pi(self):
        return Q(+mp.pi)

    @property
    def inf(self):
        return Q(_INF)

    @property
    def nan(self):
        return Q(_NAN)

    @property
    def e(self):
        return Q(+mp.e)

    def _un(self, f, x, lo=None, hi=None, name=""):
        v = _m(x)
        if _isnan(v):
            return Q(_NAN)
        if (lo is not None and v < lo) or (hi is not None and v > hi):
            WITNESS.hit("domain_" + name)
            return Q(_NAN)
        return Q(f(v))

    def sqrt(self, x):
        v = _m(x)
        if _isnan(v):
            return Q(_NAN)
        if v < 0:
            WITNESS.hit("sqrt_neg")
            return Q(_NAN)
        if mpmath.isinf(v):
            return Q(_INF)
        return Q(mpmath.sqrt(v))

    def sin(self, x):
        v = _m(x)
        return Q(mpmath.sin(v)) if _fin(v) else Q(_NAN)

    def cos(self, x):
        v = _m(x)
        return Q(mpmath.cos(v)) if _fin(v) else Q(_NAN)

    def tan(self, x):
        v = _m(x)
        return Q(mpmath.tan(v)) if _fin(v) else Q(_NAN)

    def arcsin(self, x):
        return self._un(mpmath.asin, x, -1, 1, "arcsin")

    def arccos(self, x):
        return self._un(mpmath.acos, x, -1, 1, "arccos")

    def arctan(self, x):
        v = _m(x)
        if _isnan(v):
            return Q(_NAN)
        if mpmath.isinf(v):
            return Q(+mp.pi / 2 if v > 0 else -mp.pi / 2)
        return Q(mpmath.atan(v))

    def arctan2(self, y, x):
        y, x = _m(y), _m(x)
        if _isnan(y) or _isnan(x):
            return Q(_NAN)
        if x == 0 and y == 0:
            WITNESS.hit("atan2_00")
            return Q(0)
        return Q(mpmath.atan2(y, x))

    def sinh(self, x):
        v = _m(x)
        if _isnan(v):
            return Q(_NAN)
        if mpmath.isinf(v):
            return Q(v)
        return Q(mpmath.sinh(v))

    def cosh(self, x):
        v = _m(x)
        if _isnan(v):
            return Q(_NAN)
        if mpmath.isinf(v):
            return Q(_INF)
        return Q(mpmath.cosh(v))

    def tanh(self, x):
        v = _m(x)
        if _isnan(v):
            return Q(_NAN)
        if mpmath.isinf(v):
            return Q(1 if v > 0 else -1)
        return Q(mpmath.tanh(v))

    def arcsinh(self, x):
        v = _m(x)
        if _isnan(v):
            return Q(_NAN)
        if mpmath.isinf(v):
            return Q(v)
        return Q(mpmath.asinh(v))

    def arccosh(self, x):
        return self._un(mpmath.acosh, x, 1, None, "arccosh")

    def arctanh(self, x):
        v = _m(x)
        if _isnan(v) or abs(v) > 1:
            return Q(_NAN)
        if abs(v) == 1:
            return Q(_INF if v > 0 else -_INF)
        return Q(mpmath.atanh(v))

    def exp(self, x):
        v = _m(x)
        if _isnan(v):
            return Q(_NAN)
        if mpmath.isinf(v):
            return Q(_INF if v > 0 else 0)
        return Q(mpmath.exp(v))

    def log(self, x):
        v = _m(x)
        if _isnan(v):
            return Q(_NAN)
        if v == 0:
            WITNESS.hit("log0")
            return Q(-_INF)
        if v < 0:
            WITNESS.hit("log_neg")
            return Q(_NAN)
        if mpmath.isinf(v):
            return Q(_INF)
        return Q(mpmath.log(v))

    def absolute(self, x):
        return Q(abs(_m(x)))

    def sign(self, x):
        v = _m(x)
        if _isnan(v):
            return Q(_NAN)
        if v <= 0:
            WITNESS.hit("sign_nonpos")
        return Q(1 if v > 0 else (-1 if v < 0 else 0))

    def copysign(self, a, b):
        a, b = _m(a), _m(b)
        r = -abs(a) if b < 0 else abs(a)
        if b < 0:
            WITNESS.hit("copysign_neg")
        if r != a:
            WITNESS.hit("copysign_changes_value")
        return Q(r)

    def maximum(self, a, b):
        a, b = _m(a), _m(b)
        if _isnan(a) or _isnan(b):
            return Q(_NAN)
        return Q(a if a >= b else b)

    def minimum(self, a, b):
        a, b = _m(a), _m(b)
        if _isnan(a) or _isnan(b):
            return Q(_NAN)
        return Q(a if a <= b else b)

    def nan_to_num(self, x, copy=True, nan=0.0, posinf=None, neginf=None):
        v = _m(x)
        # a plain python number here is a constant sub-expression such as `(z != 0) * inf` that the compute layer
        # builds as the *replacement value* of an outer nan_to_num: only operand-derived values (Q) are witnessed
        derived = type(x) is Q
        if _isnan(v):
            if derived:
                WITNESS.hit("nan_to_num_nan")
            return _q(nan)
        if mpmath.isinf(v):
            if derived:
                WITNESS.hit("nan_to_num_inf")
            if v > 0:
                return _q(posinf) if posinf is not None else Q(mpf(1.7976931348623157e308))
            return _q(neginf) if neginf is not None else Q(mpf(-1.7976931348623157e308))
        return _q(x)

    def isclose(self, a, b, rtol=1e-05, atol=1e-08, equal_nan=False):
        a, b, rtol, atol = _m(a), _m(b), _m(rtol), _m(atol)
        if _isnan(a) or _isnan(b):
            return bool(equal_nan) and _isnan(a) and _isnan(b)
        if mpmath.isinf(a) or mpmath.isinf(b):
            return bool(a == b)
        return bool(abs(a - b) <= atol + rtol * abs(b))


MPLIB = MpLib()


class ClampWitnessLib(MpLib):
    """MpLib that additionally records when maximum/minimum actually clamped,
    i.e. returned its *constant* argument although the other one was beyond it.
    The compute layer always writes the constant as a Python int/float literal,
    so 'clamped' = the Q-valued argument lost."""

    def maximum(self, a, b):
        r = MpLib.maximum(self, a, b)
        qa, qb = type(a) is Q, type(b) is Q
        if qa != qb:
            var, const = (a, b) if qa else (b, a)
            if _m(var) < _m(const):
                WITNESS.hit("clamp_max")
        return r

    def minimum(self, a, b):
        r = MpLib.minimum(self, a, b)
        qa, qb = type(a) is Q, type(b) is Q
        if qa != qb:
            var, const = (a, b) if qa else (b, a)
            if _m(var) > _m(const):
                WITNESS.hit("clamp_min")
        return r


WLIB = ClampWitnessLib()


# ---------------------------------------------------------------------------
# Mp vector classes: the repository's object classes with lib = WLIB

_CLASSES = None


def mp_classes():
    """Returns dict {(dim, is_momentum): class}.  Must be called after bind()."""
    global _CLASSES
    if _CLASSES is not None:
        return _CLASSES
    from vector.backends import object as vo

    def mk(base, name):
        return type(name, (base,), {"lib": WLIB, "__slots__": ()})

    V2 = mk(vo.VectorObject2D, "MpVectorObject2D")
    V3 = mk(vo.VectorObject3D, "MpVectorObject3D")
    V4 = mk(vo.VectorObject4D, "MpVectorObject4D")
    M2 = mk(vo.MomentumObject2D, "MpMomentumObject2D")
    M3 = mk(vo.MomentumObject3D, "MpMomentumObject3D")
    M4 = mk(vo.MomentumObject4D, "MpMomentumObject4D")
    gen = {2: V2, 3: V3, 4: V4}
    mom = {2: M2, 3: M3, 4: M4}
    for d in (2, 3, 4):
        for c, fam in ((gen[d], gen), (mom[d], mom)):
            c.ProjectionClass2D = fam[2]
            c.ProjectionClass3D = fam[3]
            c.ProjectionClass4D = fam[4]
            c.GenericClass = gen[d]
            c.MomentumClass = mom[d]
    _CLASSES = {}
    for d in (2, 3, 4):
        _CLASSES[(d, False)] = gen[d]
        _CLASSES[(d, True)] = mom[d]
    return _CLASSES
