"""Taps on the dispatch layer, installed from outside (DESIGN §1.2, §2.7).

* per compute module, the module-global `_from_signature` is replaced by a
  wrapper that records (module, signature) for every look-up;
* per compute module, the attribute `dispatch` is replaced by a wrapper that
  calls registered enter/exit hooks.

`dispatch_map` entries themselves are never wrapped.
"""
from __future__ import annotations

import importlib
import pkgutil
import threading

_LOCAL = threading.local()
SEEN = set()           # (module short name, signature-of-names)
_SEEN_LOCK = threading.Lock()
HOOKS = []             # objects with .enter(mod, args) -> token and .exit(mod, args, token, result, exc)
_INSTALLED = False
MODULES = {}


def compute_modules():
    """All vector._compute.{planar,spatial,lorentz}.* modules that have a dispatch_map."""
    global MODULES
    if MODULES:
        return MODULES
    import vector._compute.lorentz
    import vector._compute.planar
    import vector._compute.spatial

    for pkg in (vector._compute.planar, vector._compute.spatial, vector._compute.lorentz):
        for info in pkgutil.iter_modules(pkg.__path__):
            m = importlib.import_module(pkg.__name__ + "." + info.name)
            if hasattr(m, "dispatch_map") and hasattr(m, "dispatch"):
                MODULES[pkg.__name__.split(".")[-1] + "." + info.name] = m
    return MODULES


def _signame(sig):
    return tuple(getattr(s, "__name__", repr(s)) for s in sig)


def all_variants():
    """{(module, signature-names)} over every live dispatch_map."""
    out = set()
    for name, m in compute_modules().items():
        for key in m.dispatch_map:
            out.add((name, _signame(key)))
    return out


def install():
    global _INSTALLED
    if _INSTALLED:
        return
    import vector._methods as M

    orig_from_signature = M._from_signature

    for name, m in compute_modules().items():
        def make_fs(modname):
            def _from_signature(name_, dispatch_map, signature):
                res = orig_from_signature(name_, dispatch_map, signature)
                key = (modname, _signame(signature))
                if key not in SEEN:
                    with _SEEN_LOCK:
                        SEEN.add(key)
                return res
            return _from_signature

        if getattr(m, "_from_signature", None) is orig_from_signature:
            m._from_signature = make_fs(name)

        def make_dispatch(modname, orig):
            def dispatch(*args):
                if not HOOKS:
                    return orig(*args)
                tokens = [h.enter(modname, args) for h in HOOKS]
                try:
                    res = orig(*args)
                except BaseException as e:
                    for h, tk in zip(HOOKS, tokens):
                        h.exit(modname, args, tk, None, e)
                    raise
                for h, tk in zip(HOOKS, tokens):
                    h.exit(modname, args, tk, res, None)
                return res
            dispatch.__wrapped__ = orig
            return dispatch

        m.dispatch = make_dispatch(name, m.dispatch)
    _INSTALLED = True


def seen_reset():
    with _SEEN_LOCK:
        SEEN.clear()
