"""The cross-backend sweep: every catalogued operation evaluated on identical
float64 inputs as object calls, NumPy array calls (many shapes) and Awkward
array/record calls (many layouts, three construction routes, mixed
pairings).  C03 judges values/structure; C16 and C18 attach their own judges
to the same executions (DESIGN §3 C03, §2.7)."""
from __future__ import annotations

import mpmath
import numpy
from mpmath import mpf

from . import awk
from . import backends as B
from . import catalog as C
from . import engine as E
from . import gen
from . import refmodel as R
from . import workload as W
from .engine import LVec

TOL = mpf(10) ** -11
N = 8
REC = 5  # which element plays the single record / single object in mixed pairings (deliberately not the first)
GRID_KINDS = ("angle", "factor", "beta", "gamma", "tol", "lonz", "lontheta", "loneta", "tt", "ttau")
GRID_F = (1.0, 0.5, 0.75)


class Ctx:
    """what a judge sees of one array-backend call"""

    __slots__ = ("op", "dim", "variant", "backend", "pairing", "operands", "struct", "sig", "batch", "rowmap", "expected",
                 "self_operand", "extra", "route")


def _obj_results(op, cases, pairing):
    out = []
    if not cases:
        return out
    c0 = cases[REC] if len(cases) > REC else cases[0]
    for self_l, args in cases:
        if pairing == "other0":
            args = [c0[1][j] if isinstance(a, LVec) else a for j, a in enumerate(args)]
        elif pairing == "self0":
            self_l = c0[0]
        try:
            out.append(("ok", E.eval_obj(op, self_l, args)))
        except Exception as e:
            out.append(("exc", type(e).__name__, str(e)[:150]))
    return out


def _scalars_plain(args):
    return [E._conv_scalar(a, float) if not isinstance(a, LVec) else None for a in args]


def int_lvec(l):
    """the operand with every stored coordinate replaced by a nearby integer of the same sign (lengths are scaled by 8
    first so that ratios survive; angles stay inside their ranges): exactly representable in int64 and float64 columns"""
    out = []
    for nm, v in zip(R.field_names(l.system), l.f64()[0]):
        if nm == "phi":
            k = max(-3, min(3, round(v)))
        elif nm == "theta":
            k = max(1, min(3, round(v)))
        elif nm == "eta":
            k = max(-5, min(5, round(v)))
        else:
            k = round(v * 8) or (1 if v >= 0 else -1)
        out.append(mpf(k))
    return LVec(R.from_coords(l.system, out), l.system, l.momentum, coords=tuple(out))


def f32_lvec(l):
    """the operand with every stored coordinate rounded to float32"""
    out = [mpf(float(numpy.float32(v))) for v in l.f64()[0]]
    return LVec(R.from_coords(l.system, out), l.system, l.momentum, coords=tuple(out))


def _np_vec(ls, shape, strided=False, dtype=numpy.float64):
    s0 = ls[0]
    rows = [l.f64()[0] for l in ls]
    if dtype is not numpy.float64:
        return B.mk_numpy_cls(s0.system, rows, s0.momentum, shape, dtype=dtype)
    if strided:
        doubled = []
        for row in rows:
            doubled += [row, tuple(-9.75 for _ in row)]
        arr = B.mk_numpy_cls(s0.system, doubled, s0.momentum)
        return arr[::2]
    return B.mk_numpy_cls(s0.system, rows, s0.momentum, shape)


def numpy_variants(op, cases, tier):
    n = len(cases)
    selfs = [c[0] for c in cases]
    nargs = len(cases[0][1])
    plain = _scalars_plain(cases[0][1])
    vecpos = [j for j, a in enumerate(cases[0][1]) if isinstance(a, LVec)]
    shapes = [("(n,)", (n,)), ("(1,n)", (1, n)), ("(n,1)", (n, 1)), ("(2,n/2)", (2, n // 2)), ("(2,2,n/4)", (2, 2, n // 4))]

    def mk(shape, strided=False, other="array", selfmode="array"):
        def build():
            v = _np_vec(selfs, shape, strided) if selfmode == "array" else E.mat_obj(selfs[REC])
            a = list(plain)
            for j in vecpos:
                col = [c[1][j] for c in cases]
                a[j] = _np_vec(col, shape, strided) if other == "array" else E.mat_obj(col[REC])
            return v, a
        return build

    for name, shape in shapes:
        yield {"name": "numpy" + name, "backend": "numpy", "pairing": "paired", "build": mk(shape), "shape": shape}
    # unusual but legitimate array forms of the receiving array: empty, read-only, Fortran-ordered, fields stored in
    # reverse order, and scalar arguments given as NumPy scalars / 0-d arrays / Python ints
    def build_empty():
        v = _np_vec(selfs, (n,))[:0]
        a = list(plain)
        for j in vecpos:
            a[j] = _np_vec([c[1][j] for c in cases], (n,))[:0]
        return v, a
    yield {"name": "numpy(0,):empty", "backend": "numpy", "pairing": "special", "build": build_empty, "shape": (0,), "cases": []}

    def build_readonly():
        v, a = mk((n,))()
        for x in [v] + [a[j] for j in vecpos]:
            x.flags.writeable = False
        return v, a
    yield {"name": "numpy(n,):read-only", "backend": "numpy", "pairing": "paired", "build": build_readonly, "shape": (n,)}

    def build_fortran():
        v, a = mk((2, n // 2))()
        v = numpy.asfortranarray(numpy.asarray(v).view(numpy.ndarray)).view(type(v))
        for j in vecpos:
            a[j] = numpy.asfortranarray(numpy.asarray(a[j]).view(numpy.ndarray)).view(type(a[j]))
        return v, a
    yield {"name": "numpy(2,n/2):fortran-order", "backend": "numpy", "pairing": "paired", "build": build_fortran, "shape": (2, n // 2)}

    def build_reversed_fields():
        def rev(x):
            base = numpy.asarray(x).view(numpy.ndarray)
            names = list(base.dtype.names)[::-1]
            out = numpy.zeros(base.shape, dtype=[(nm, base.dtype[nm]) for nm in names])
            for nm in names:
                out[nm] = base[nm]
            return out.view(type(x))
        v, a = mk((n,))()
        v = rev(v)
        for j in vecpos:
            a[j] = rev(a[j])
        return v, a
    yield {"name": "numpy(n,):fields-in-reverse-order", "backend": "numpy", "pairing": "paired", "build": build_reversed_fields, "shape": (n,)}
    if any(p is not None and not isinstance(p, str) for p in plain):
        for kname, conv in (("numpy.float64-scalars", numpy.float64), ("0-d-arrays", lambda x: numpy.array(x, dtype=numpy.float64))):
            def build_kinds(conv=conv):
                v, a = mk((n,))()
                a = [conv(x) if (x is not None and isinstance(x, float)) else x for x in a]
                return v, a
            yield {"name": f"numpy(n,) x {kname}", "backend": "numpy", "pairing": "paired", "build": build_kinds, "shape": (n,)}
    # integer-typed columns on the receiving array (the object reference gets the same integers as floats)
    for dt in (numpy.int64, numpy.int32):
        try:
            icases = [(int_lvec(c[0]), c[1]) for c in cases]
        except R.NotRepresentable:
            break
        iselfs = [c[0] for c in icases]

        def build_int(dt=dt, iselfs=iselfs):
            v = _np_vec(iselfs, (n,), dtype=dt)
            a = list(plain)
            for j in vecpos:
                a[j] = _np_vec([c[1][j] for c in cases], (n,))
            return v, a
        yield {"name": f"numpy(n,):{numpy.dtype(dt).name}-columns", "backend": "numpy", "pairing": "intcols", "build": build_int,
               "shape": (n,), "cases": icases}
    yield {"name": "numpy-strided-view", "backend": "numpy", "pairing": "paired", "build": mk((n,), True), "shape": (n,)}
    # physical twins of the same float64 values: big-endian columns, a padded record layout (itemsize larger than the
    # fields, first field not at offset 0), a column of a wider 2-D block taken as a non-contiguous view
    def retype(x, how):
        base = numpy.asarray(x).view(numpy.ndarray)
        names = list(base.dtype.names)
        if how == "big-endian":
            out = numpy.zeros(base.shape, dtype=[(nm, ">f8") for nm in names])
        elif how == "padded-offsets":
            out = numpy.zeros(base.shape, dtype=numpy.dtype({"names": names, "formats": ["<f8"] * len(names),
                                                              "offsets": [8 + 24 * k for k in range(len(names))],
                                                              "itemsize": 24 * len(names) + 16}))
        elif how == "column-of-2d":
            wide = numpy.zeros(base.shape + (3,), dtype=base.dtype)
            wide[..., 0] = wide[..., 2] = numpy.array(tuple(-9.75 for _ in names), dtype=base.dtype)
            out = wide[..., 1]
        for nm in names:
            out[nm] = base[nm]
        return out.view(type(x))
    for k_, how in enumerate(("big-endian", "padded-offsets", "column-of-2d")):
        shp = [(n,), (2, n // 2), (n,)][k_]

        def build_twin(how=how, shp=shp):
            v, a = mk(shp)()
            v = retype(v, how)
            for j in vecpos:
                a[j] = retype(a[j], how) if how != "padded-offsets" else a[j]
            return v, a
        yield {"name": f"numpy{shp!r}:{how}".replace(" ", ""), "backend": "numpy", "pairing": "paired", "build": build_twin, "shape": shp}
    # float32 columns: values rounded to float32 first (the object reference gets the rounded values), compared at
    # float32 accuracy
    try:
        fcases = [(f32_lvec(c[0]), [f32_lvec(a) if isinstance(a, LVec) else a for a in c[1]]) for c in cases]
    except R.NotRepresentable:
        fcases = None
    if fcases is not None and (op.result != "bool" or op.name in ("equal", "not_equal")):
        def build_f32():
            v = _np_vec([c[0] for c in fcases], (n,), dtype=numpy.float32)
            a = list(plain)
            for j in vecpos:
                a[j] = _np_vec([c[1][j] for c in fcases], (n,), dtype=numpy.float32)
            return v, a
        yield {"name": "numpy(n,):float32-columns", "backend": "numpy", "pairing": "f32cols", "build": build_f32, "shape": (n,),
               "cases": fcases, "tol": mpf(10) ** -4}
    gi = next((j for j, k in enumerate(op.args) if k in GRID_KINDS), None)
    if gi is not None:
        base = cases[0][1][gi]
        kind = op.args[gi]
        vals = [(1 + (base - 1) * f) if kind == "gamma" else base * f for f in GRID_F]

        def build_grid():
            v = _np_vec(selfs, (n, 1))
            a = list(plain)
            for j in vecpos:
                a[j] = _np_vec([c[1][j] for c in cases], (n, 1))
            a[gi] = numpy.array([float(x) for x in vals], dtype=numpy.float64)
            return v, a
        yield {"name": "numpy(n,1) x scalar-array(m,)", "backend": "numpy", "pairing": "grid", "build": build_grid, "shape": (n, len(vals)),
               "grid": (gi, vals)}
    if vecpos:
        yield {"name": "numpy x object", "backend": "numpy", "pairing": "other0", "build": mk((n,), other="object"), "shape": (n,)}
        yield {"name": "object x numpy", "backend": "numpy", "pairing": "self0", "build": mk((n,), selfmode="object"), "shape": (n,)}
        yield {"name": "numpy(2,n/2) x object", "backend": "numpy", "pairing": "other0", "build": mk((2, n // 2), other="object"), "shape": (2, n // 2)}


class TwinNotApplicable(Exception):
    pass


def salt_mix(name):
    return sum(map(ord, name))


def awkward_variants(op, cases, tier, salt):
    n = len(cases)
    selfs = [c[0] for c in cases]
    plain = _scalars_plain(cases[0][1])
    vecpos = [j for j, a in enumerate(cases[0][1]) if isinstance(a, LVec)]
    S = awk.structures(n)
    routes = ["zip", "Array", "with_name"]

    def rows_of(ls):
        return [l.f64()[0] for l in ls]

    def mkarr(ls, struct, route, extra, spelling=0, reverse_fields=False, input_kind=None):
        return awk.build(ls[0].system, rows_of(ls), ls[0].momentum, struct, route=route, spelling=spelling,
                         extra=(extra if extra == "nested" else (extra and route != "with_name")), reverse_fields=reverse_fields,
                         input_kind=input_kind)

    def mk(sname, route, other="same", selfmode="array", extra=True, spelling=0):
        struct = S[sname]

        def build():
            import awkward as ak

            if selfmode == "array":
                v = mkarr(selfs, struct, route, extra, spelling)
            elif selfmode == "record":
                v = mkarr(selfs, S["flat"], route, extra, spelling)[REC]
            elif selfmode == "object":
                v = E.mat_obj(selfs[REC])
            else:
                v = _np_vec(selfs, (n,))
            a = list(plain)
            for j in vecpos:
                col = [c[1][j] for c in cases]
                if other == "same":
                    a[j] = mkarr(col, struct, route, False, spelling)
                elif other == "object":
                    a[j] = E.mat_obj(col[REC])
                elif other == "record":
                    a[j] = mkarr(col, S["flat"], route, False, spelling)[REC]
                elif other == "numpy":
                    a[j] = _np_vec(col, (n,))
                elif other == "flat":
                    a[j] = mkarr(col, S["flat"], route, False, spelling)
            return v, a
        return build, struct

    k = salt
    for i, sname in enumerate(S):
        rs = routes if tier == "thorough" else [routes[(i + k) % 3]]
        if sname == "empty_outer":
            rs = [r for r in rs if r != "Array"] or ["zip"]
        for route in rs:
            b, st = mk(sname, route, spelling=(i + k) % 3)
            yield {"name": f"awkward:{sname}:{route}", "backend": "awkward", "pairing": "paired", "build": b, "struct": st,
                   "route": route, "extra": route != "with_name"}
    gi = next((j for j, k in enumerate(op.args) if k in GRID_KINDS), None)
    if gi is not None:
        base = cases[0][1][gi]
        kind = op.args[gi]
        per = [(1 + (base - 1) * GRID_F[i % 3]) if kind == "gamma" else base * GRID_F[i % 3] for i in range(n)]
        struct = S["jagged"]

        def build_elem():
            import awkward as ak

            v = mkarr(selfs, struct, "zip", True)
            a = list(plain)
            for j in vecpos:
                a[j] = mkarr([c[1][j] for c in cases], struct, "zip", False)
            a[gi] = ak.Array(awk.map_struct(struct, lambda i: float(per[i])))
            return v, a
        yield {"name": "awkward:jagged x scalar-array(same structure)", "backend": "awkward", "pairing": "perelem", "build": build_elem,
               "struct": struct, "route": "zip", "extra": True, "perelem": (gi, per)}
    # ---- broadcasting one-per-event against many-per-event (flat array with jagged array / jagged scalar array)
    J = [[0, 1], [], [2, 3, 4], [5, 6, 7]][: 4] if n >= 8 else None
    if J is not None:
        list_of = {}
        for li, lst in enumerate(J):
            for r_ in lst:
                list_of[r_] = li

        def flat_of(ls, k=0):
            return mkarr(ls[:4], [0, 1, 2, 3], routes[(k + salt) % 2 * 2], k == 0)

        if vecpos and op.name != "rotate_axis":
            def build_evt_self():
                v = flat_of(selfs)
                a = list(plain)
                for j in vecpos:
                    a[j] = mkarr([c[1][j] for c in cases], J, "zip", False)
                return v, a
            yield {"name": "awkward:flat(events) x awkward:jagged", "backend": "awkward", "pairing": "evt-self", "build": build_evt_self,
                   "struct": J, "route": "zip", "extra": False, "evt": list_of, "self_not_awkward": False}

            def build_evt_other():
                v = mkarr(selfs, J, "zip", True)
                a = list(plain)
                for j in vecpos:
                    a[j] = flat_of([c[1][j] for c in cases], 1)
                return v, a
            yield {"name": "awkward:jagged x awkward:flat(events)", "backend": "awkward", "pairing": "evt-other", "build": build_evt_other,
                   "struct": J, "route": "zip", "extra": True, "evt": list_of}
        if gi is not None and not vecpos and op.group != "embedding":
            # (embeddings document a *scalar* keyword that is broadcast; a keyword array deeper than the vectors is zipped
            #  at the vectors' depth and is not a documented use: recorded in DESIGN 7.2, not judged)
            base = cases[0][1][gi]
            kind = op.args[gi]
            perleaf = {r_: ((1 + (base - 1) * GRID_F[r_ % 3]) if kind == "gamma" else base * GRID_F[r_ % 3]) for r_ in list_of}

            def build_evt_scalar():
                import awkward as ak

                v = flat_of(selfs)
                a = list(plain)
                a[gi] = ak.Array(awk.map_struct(J, lambda i: float(perleaf[i])))
                return v, a
            yield {"name": "awkward:flat(events) x scalar-array(jagged)", "backend": "awkward", "pairing": "evt-scalar", "build": build_evt_scalar,
                   "struct": J, "route": "zip", "extra": False, "evt": list_of, "evt_scalar": (gi, perleaf)}
    # fields given in reverse order (extra field first, temporal ... azimuthal last), and scalar arguments as NumPy
    # scalars / 0-d arrays
    for route in ("zip", "with_name"):
        def build_rev(route=route):
            v = mkarr(selfs, S["jagged"], route, True, reverse_fields=True)
            a = list(plain)
            for j in vecpos:
                a[j] = mkarr([c[1][j] for c in cases], S["jagged"], route, False, reverse_fields=True)
            return v, a
        yield {"name": f"awkward:jagged:{route}:fields-in-reverse-order", "backend": "awkward", "pairing": "paired", "build": build_rev,
               "struct": S["jagged"], "route": route, "extra": route != "with_name"}
    if any(p is not None and isinstance(p, float) for p in plain):
        for kname, conv in (("numpy.float64-scalars", numpy.float64), ("0-d-arrays", lambda x: numpy.array(x, dtype=numpy.float64))):
            def build_kinds(conv=conv):
                v = mkarr(selfs, S["jagged"], "zip", True)
                a = [conv(x) if isinstance(x, float) else x for x in plain]
                for j in vecpos:
                    a[j] = mkarr([c[1][j] for c in cases], S["jagged"], "zip", False)
                return v, a
            yield {"name": f"awkward:jagged x {kname}", "backend": "awkward", "pairing": "paired", "build": build_kinds,
                   "struct": S["jagged"], "route": "zip", "extra": True}
    # physical layout twins (awk.relayout): same logical array, different layout nodes; self and the other operand get
    # different kinds so that the two are never laid out alike
    twin_structs = ["jagged", "nested3", "option_list", "option_leaf", "flat"]
    kinds = list(awk.PHYSICAL)
    if tier == "thorough":
        picks = [("jagged", kd) for kd in kinds] + [(twin_structs[1 + (i + k) % 4], kd) for i, kd in enumerate(kinds)]
    else:
        picks = [(twin_structs[(k + i) % 5], kinds[(3 * k + salt_mix(op.name) + 3 * i) % len(kinds)]) for i in range(3)]
    for (sname, kd) in picks:
        route = routes[(k + len(sname) + len(kd)) % 3]
        st = S[sname]

        def build_twin(st=st, route=route, kd=kd):
            v0 = mkarr(selfs, st, route, True)
            v = awk.relayout(v0, kd)
            if v is None:
                raise TwinNotApplicable()
            a = list(plain)
            for j in vecpos:
                a0 = mkarr([c[1][j] for c in cases], st, route, False)
                a1 = awk.relayout(a0, kinds[(kinds.index(kd) + 3) % len(kinds)])
                a[j] = a1 if a1 is not None else a0
            return v, a
        yield {"name": f"awkward:{sname}:{route}:physical={kd}", "backend": "awkward", "pairing": "paired", "build": build_twin,
               "struct": st, "route": route, "extra": route != "with_name"}
    # the constructors' *inputs* in other physical layouts (every column its own kind / records behind an IndexedArray ...)
    for i_, (route, kd) in enumerate((("zip", "listarray-gaps"), ("Array", "indexed-records"), ("with_name", "sliced-offsets"),
                                      ("Array", "bytemasked-allvalid"), ("zip", "indexed-lists"))):
        if tier != "thorough" and i_ != (k + salt_mix(op.name)) % 5:
            continue
        sname = ("jagged", "nested3", "option_list")[(k + i_) % 3]

        def build_in(route=route, kd=kd, sname=sname):
            v = mkarr(selfs, S[sname], route, True, input_kind=kd)
            a = list(plain)
            for j in vecpos:
                a[j] = mkarr([c[1][j] for c in cases], S[sname], route, False, input_kind=kd)
            return v, a
        yield {"name": f"awkward:{sname}:{route}:constructor-input={kd}", "backend": "awkward", "pairing": "paired", "build": build_in,
               "struct": S[sname], "route": route, "extra": route != "with_name"}
    # integer-typed and float32 leaves on the receiving array (the object reference gets the same integers / rounded values)
    import awkward as _ak

    def retyped(arr, dt):
        return _ak.Array(_ak.values_astype(arr, dt).layout, behavior=arr.behavior)

    try:
        icases = [(int_lvec(c[0]), c[1]) for c in cases]
    except R.NotRepresentable:
        icases = None
    if icases is not None:
        def build_int(icases=icases):
            v = retyped(mkarr([c[0] for c in icases], S["jagged"], "with_name", False), numpy.int64)
            a = list(plain)
            for j in vecpos:
                a[j] = mkarr([c[1][j] for c in cases], S["jagged"], "with_name", False)
            return v, a
        yield {"name": "awkward:jagged:int64-leaves", "backend": "awkward", "pairing": "intcols", "build": build_int,
               "struct": S["jagged"], "route": "with_name", "extra": False, "cases": icases}
    try:
        fcases = [(f32_lvec(c[0]), [f32_lvec(a_) if isinstance(a_, LVec) else a_ for a_ in c[1]]) for c in cases]
    except R.NotRepresentable:
        fcases = None
    if fcases is not None and (op.result != "bool" or op.name in ("equal", "not_equal")):
        def build_f32(fcases=fcases):
            v = retyped(mkarr([c[0] for c in fcases], S["jagged"], "zip", False), numpy.float32)
            a = list(plain)
            for j in vecpos:
                a[j] = retyped(mkarr([c[1][j] for c in fcases], S["jagged"], "zip", False), numpy.float32)
            return v, a
        yield {"name": "awkward:jagged:float32-leaves", "backend": "awkward", "pairing": "f32cols", "build": build_f32,
               "struct": S["jagged"], "route": "zip", "extra": False, "cases": fcases, "tol": mpf(10) ** -4}
    # extra fields deeper than the vectors (a list of hits and a string per vector) on the receiving array
    for i_, sname in enumerate(("jagged", "flat", "option_list") if tier == "thorough" else (("jagged", "flat", "option_list")[k % 3],)):
        route = ("zip", "with_name")[(k + i_) % 2]   # vector.Array type-checks every field: numeric extra fields only
        b, st = mk(sname, route, extra="nested")
        yield {"name": f"awkward:{sname}:{route}:nested-extra-fields", "backend": "awkward", "pairing": "paired", "build": b, "struct": st,
               "route": route, "extra": "nested"}
    b, st = mk("jagged", "zip")
    yield {"name": "awkward:regular:zip", "backend": "awkward", "pairing": "paired",
           "build": _regular_builder(selfs, cases, plain, vecpos, n), "struct": [list(range(n // 2)), list(range(n // 2, n))],
           "route": "zip", "extra": False}
    b, st = mk("flat", routes[k % 3], selfmode="record", other="record" if vecpos else "same")
    yield {"name": "awkward:record", "backend": "awkward", "pairing": "paired", "build": b, "struct": 0, "record": True,
           "route": routes[k % 3], "extra": True}
    if vecpos:
        for route in (["zip", "with_name"] if tier == "thorough" else [routes[k % 2 * 2]]):
            b, st = mk("jagged", route, other="object")
            yield {"name": f"awkward:jagged:{route} x object", "backend": "awkward", "pairing": "other0", "build": b, "struct": st, "route": route, "extra": True}
            b, st = mk("jagged", route, other="record")
            yield {"name": f"awkward:jagged:{route} x record", "backend": "awkward", "pairing": "other0", "build": b, "struct": st, "route": route, "extra": True}
            b, st = mk("flat", route, other="numpy")
            yield {"name": f"awkward:flat:{route} x numpy", "backend": "awkward", "pairing": "paired", "build": b, "struct": st, "route": route, "extra": True}
            b, st = mk("flat", route, selfmode="numpy", other="flat")
            yield {"name": f"numpy x awkward:flat:{route}", "backend": "awkward", "pairing": "paired", "build": b, "struct": st, "route": route, "extra": False, "self_not_awkward": True}
            b, st = mk("flat", route, selfmode="object", other="flat")
            yield {"name": f"object x awkward:flat:{route}", "backend": "awkward", "pairing": "self0", "build": b, "struct": st, "route": route, "extra": False, "self_not_awkward": True}
            b, st = mk("flat", route, selfmode="record", other="flat")
            yield {"name": f"record x awkward:flat:{route}", "backend": "awkward", "pairing": "self0", "build": b, "struct": st, "route": route, "extra": False, "self_not_awkward": True}


def _regular_builder(selfs, cases, plain, vecpos, n):
    def build():
        st = [list(range(n // 2)), list(range(n // 2, n))]
        v = awk.build(selfs[0].system, [l.f64()[0] for l in selfs], selfs[0].momentum, st, route="zip", regular=True)
        a = list(plain)
        for j in vecpos:
            col = [c[1][j] for c in cases]
            a[j] = awk.build(col[0].system, [l.f64()[0] for l in col], col[0].momentum, st, route="zip", regular=True)
        return v, a
    return build


# ---------------------------------------------------------------------------
# canonicalising array results

def canon_awkward(op, res, variant):
    """-> (skeleton, list of canonical leaves (None for missing), meta)"""
    import awkward as ak
    from vector._methods import Momentum

    meta = {}
    if op.result == "vec":
        if not isinstance(res, (ak.Array, ak.Record)):
            raise TypeError(f"{op.name}: expected an awkward array/record of vectors, got {type(res).__name__}")
        system, gen_ = awk.result_vectors(res)
        if system is None:
            raise TypeError(f"{op.name}: result has no complete coordinate set: fields {ak.fields(res)}")
        names = R.field_names(system)
        meta["fields"] = list(ak.fields(res))
        meta["recname"] = awk.recname(res)
        meta["is_vector"] = hasattr(res, "azimuthal")
        meta["momentum"] = isinstance(res, Momentum)
        if isinstance(res, ak.Record):
            row = tuple(float(res[gen_[nm]]) for nm in names)
            return 0, [E.ElemVec(system, row, type(res).__name__, meta["momentum"])], meta
        cols = [ak.to_list(res[gen_[nm]]) for nm in names]
        skel = awk.skeleton(cols[0])
        leaves = [awk.flat_leaves(c) for c in cols]
        out = []
        for i in range(len(leaves[0])):
            vals = [lv[i] for lv in leaves]
            if any(v is None for v in vals):
                out.append(None)
            else:
                out.append(E.ElemVec(system, tuple(float(v) for v in vals), type(res).__name__, meta["momentum"]))
        return skel, out, meta
    if isinstance(res, ak.Array):
        lst = ak.to_list(res)
        skel = awk.skeleton(lst)
        leaves = awk.flat_leaves(lst)
    elif isinstance(res, ak.Record):
        raise TypeError(f"{op.name}: scalar result is a Record")
    else:
        skel, leaves = 0, [res.item() if hasattr(res, "item") else res]
    out = []
    for v in leaves:
        if v is None:
            out.append(None)
        elif op.result == "bool":
            if not isinstance(v, bool):
                raise TypeError(f"{op.name}: expected bool leaves, got {type(v).__name__}")
            out.append(v)
        else:
            out.append(mpf(float(v)))
    return skel, out, meta


def compare_elem(op, got, exp, unit, gain, cond=mpf(1), tol=None):
    """-> (ok, message); cond: extra tolerance factor where the definition itself is ill-conditioned"""
    if exp[0] == "exc":
        return None, "object raised"
    e = exp[1]
    TOL = tol if tol is not None else globals()["TOL"]
    if op.result == "bool":
        return (bool(got) == bool(e)), f"got {got} expected {e}"
    if op.result == "vec":
        if got.system != e.system:
            return False, f"result system {R.sysname(got.system)} != object result system {R.sysname(e.system)}"
        if not all(mpmath.isfinite(c) for c in e.rv.comps()):
            return None, "non-finite"
        err = E.rel_error(op, got, e.rv, unit, gain)
        return (err <= TOL), f"rel_error {mpmath.nstr(err, 5)}"
    if not mpmath.isfinite(e):
        return (None if got != got or not mpmath.isfinite(got) else False), "object result not finite"
    if op.result == "angle":
        err = R.angdiff(got, e)
    else:
        err = E.rel_error(op, got, e, unit, gain) / cond
    return (err <= TOL), f"rel_error {mpmath.nstr(err, 5)} got {mpmath.nstr(got, 20)} expected {mpmath.nstr(e, 20)}"


# ---------------------------------------------------------------------------

def signatures(op, dim, odim, tier, r):
    selfs = R.SYSTEMS[dim]
    others = R.SYSTEMS[odim] if odim else [None]
    orders = list(R.EULER_ORDERS) if "order" in op.args else [None]
    allc = [(a, b, o) for a in selfs for b in others for o in orders]
    if tier == "thorough":
        if len(allc) > 36:
            return r.sample(allc, 36)
        return allc
    k = 4 if len(allc) > 4 else len(allc)
    return r.sample(allc, k)


def run(items, tier, seed, res, prop, judge_values=True, judges=(), backends=("numpy", "awkward"), half=None):
    """items: [(op name, dim)]; half in (0, 1): only every second sampled signature (the other half runs in a twin shard
    in the other Awkward registration mode, so that every operation is seen in both modes in every run)"""
    for opname, dim in items:
        op = C.OPS[opname]
        r = gen.rng(seed, prop, "sweep", opname, dim)
        odims = op.other_dims(dim) if op.other_dims else (None,)
        for odim in odims:
            sigs_ = signatures(op, dim, odim, tier, r)
            if half is not None and len(sigs_) > 1:
                sigs_ = sigs_[half::2]
            for (s_self, s_other, order) in sigs_:
                for attempt in range(6):
                    # a batch needs N operand sets that are all representable in this signature (the exactly-zero
                    # velocity, for one, only is with z-longitudinal storage): redraw rather than lose the signature
                    draws = W.make_batch(op, dim, r, N, odim=odim, momentum=op.momentum_only or r.random() < 0.5)
                    cases = []
                    flip = r.random() < 0.3  # one decision per batch: every element of an array has the same flavor
                    for d in draws:
                        try:
                            cases.append(W.instantiate(d, s_self, s_other, order, flip_momentum=flip))
                        except R.NotRepresentable:
                            pass
                    if len(cases) == N:
                        break
                    res.count("batch_redrawn_not_representable")
                if len(cases) < N:
                    res.count("skip_batch_not_representable")
                    continue
                # all vector args of one column share flavor/system by construction
                sig = f"{op.name}|{dim}|{R.sysname(s_self)}|{R.sysname(s_other) if s_other else '-'}|{order or '-'}"
                expected = {}
                units = [E.unit_scale(c[0], c[1], True) for c in cases]
                gain = E.arg_gain(op, cases[0][1])
                variants = []
                if "numpy" in backends:
                    variants += list(numpy_variants(op, cases, tier))
                if "awkward" in backends:
                    variants += list(awkward_variants(op, cases, tier, r.randrange(3)))
                for var in variants:
                    pairing = var["pairing"]
                    if op.name == "rotate_axis" and (var.get("self_not_awkward") or var["name"] == "object x numpy"):
                        # the axis is a secondary argument and does not decide the result backend: a lower-priority
                        # `self` cannot hold the element-wise results of a higher-priority axis array (not a documented use)
                        continue
                    if pairing == "grid":
                        gi, vals = var["grid"]
                        exp = []
                        for (self_l, args) in cases:
                            for x in vals:
                                a2 = list(args)
                                a2[gi] = x
                                try:
                                    exp.append(("ok", E.eval_obj(op, self_l, a2)))
                                except Exception as e:
                                    exp.append(("exc", type(e).__name__, str(e)[:150]))
                    elif pairing in ("evt-self", "evt-other", "evt-scalar"):
                        list_of = var["evt"]
                        exp = [("exc", "unused", "")] * len(cases)
                        for r_, li in list_of.items():
                            self_l, args = cases[r_]
                            if pairing == "evt-self":
                                self_l = cases[li][0]
                            elif pairing == "evt-other":
                                args = [cases[li][1][j] if isinstance(a, LVec) else a for j, a in enumerate(args)]
                            else:
                                gi_, perleaf = var["evt_scalar"]
                                self_l = cases[li][0]
                                args = list(cases[li][1])
                                args[gi_] = perleaf[r_]
                            try:
                                exp[r_] = ("ok", E.eval_obj(op, self_l, args))
                            except Exception as e:
                                exp[r_] = ("exc", type(e).__name__, str(e)[:150])
                    elif pairing == "perelem":
                        gi, per = var["perelem"]
                        exp = []
                        for i, (self_l, args) in enumerate(cases):
                            a2 = list(args)
                            a2[gi] = per[i]
                            try:
                                exp.append(("ok", E.eval_obj(op, self_l, a2)))
                            except Exception as e:
                                exp.append(("exc", type(e).__name__, str(e)[:150]))
                    elif "cases" in var:
                        exp = _obj_results(op, var["cases"], "paired")
                    else:
                        if pairing not in expected:
                            expected[pairing] = _obj_results(op, cases, pairing)
                        exp = expected[pairing]
                    vcases = var.get("cases", cases)
                    vunits = units if "cases" not in var else [E.unit_scale(c[0], c[1], True) for c in vcases]
                    try:
                        v, a = var["build"]()
                    except TwinNotApplicable:
                        res.count("twin_layout_not_applicable")
                        continue
                    except Exception as e:
                        res.inconc(f"cannot build variant {var['name']} for {sig}: {type(e).__name__}: {e}"[:300])
                        continue
                    ctx = Ctx()
                    ctx.op, ctx.dim, ctx.variant, ctx.backend, ctx.pairing = op, dim, var["name"], var["backend"], pairing
                    ctx.operands, ctx.struct, ctx.sig, ctx.batch, ctx.expected = [v] + [x for x in a], var.get("struct"), sig, vcases, exp
                    ctx.self_operand = v
                    ctx.extra, ctx.route = var.get("extra", False), var.get("route")
                    for j in judges:
                        j.pre(ctx)
                    res.evaluations += 1
                    try:
                        out = op.call(v, *a)
                        exc = None
                    except Exception as e:
                        out, exc = None, e
                    for j in judges:
                        j.post(ctx, out, exc, var)
                    if not judge_values:
                        res.cell(sig, var["name"])
                        continue
                    _judge_values(op, dim, res, prop, sig, var, vcases, exp, vunits, gain, out, exc)


def _judge_values(op, dim, res, prop, sig, var, cases, exp, units, gain, out, exc):
    name = var["name"]
    n = len(cases)
    used = set(var["evt"]) if "evt" in var else None
    all_obj_ok = all(e[0] == "ok" for i_, e in enumerate(exp) if used is None or i_ in used)
    if exc is not None:
        if all_obj_ok:
            res.violation(f"{prop}/array-backend-raises-where-object-returns variant={_vclass(name)} op={op.name}",
                          {"sig": sig, "variant": name, "exc": f"{type(exc).__name__}: {exc}"[:300],
                           "self0": cases[0][0].describe() if cases else None,
                           "args0": [E.describe_arg(a) for a in cases[0][1]] if cases else None})
        else:
            res.count("both_raise")
        return
    try:
        if var["backend"] == "numpy":
            ntot = n * len(var["grid"][1]) if "grid" in var else n
            got = E.canon_numpy(op, out, ntot)
            rowmap = list(range(ntot))
            if "grid" in var:
                m_ = len(var["grid"][1])
                units = [units[k // m_] for k in range(ntot)]
                cases = [cases[k // m_] for k in range(ntot)]
            shape_ok = True
            if op.result != "vec":
                arr = numpy.asarray(out)
                if tuple(arr.shape) != tuple(var["shape"]):
                    shape_ok = False
                    gshape = arr.shape
            else:
                base = numpy.asarray(out)
                if tuple(base.shape) != tuple(var["shape"]):
                    shape_ok = False
                    gshape = base.shape
            if not shape_ok:
                res.violation(f"{prop}/numpy-shape-not-preserved variant={_vclass(name)} op={op.name}",
                              {"sig": sig, "variant": name, "got_shape": list(gshape), "expected_shape": list(var["shape"])})
                return
        else:
            skel, got, meta = canon_awkward(op, out, var)
            struct = var["struct"]
            eskel = awk.skeleton(struct) if not var.get("record") else 0
            if skel != eskel:
                res.violation(f"{prop}/awkward-structure-not-preserved variant={_vclass(name)} op={op.name}",
                              {"sig": sig, "variant": name, "got": repr(skel)[:200], "expected": repr(eskel)[:200]})
                return
            rowmap = awk.struct_rows(struct) if not var.get("record") else [REC]
    except R.NotRepresentable:
        # the monitor's own readout: the result (the zero vector in theta / eta storage after scaling by 0) has no
        # canonical Cartesian form
        res.count("skip_result_not_representable")
        return
    except Exception as e:
        res.violation(f"{prop}/malformed-array-result variant={_vclass(name)} op={op.name}",
                      {"sig": sig, "variant": name, "problem": f"{type(e).__name__}: {e}"[:300]})
        return
    if len(got) != len(rowmap):
        res.violation(f"{prop}/result-length variant={_vclass(name)} op={op.name}",
                      {"sig": sig, "variant": name, "got": len(got), "expected": len(rowmap)})
        return
    compared = 0
    for g, ri in zip(got, rowmap):
        if ri is None:
            if g is not None:
                res.violation(f"{prop}/missing-value-position-lost variant={_vclass(name)} op={op.name}", {"sig": sig, "variant": name})
            continue
        if g is None:
            res.violation(f"{prop}/value-became-missing variant={_vclass(name)} op={op.name}", {"sig": sig, "variant": name, "row": ri})
            continue
        cond = E.cond_gain(op, cases[ri][0], cases[ri][1], var.get("tol") or TOL, True) if op.name in E.ILL_CONDITIONED_AT_COLLINEAR else mpf(1)
        ok, msg = compare_elem(op, g, exp[ri], units[ri], gain, cond, var.get("tol"))
        if ok is None:
            res.count("skip_element_not_comparable")
            continue
        compared += 1
        if not ok:
            res.violation(f"{prop}/element-differs-from-object-backend variant={_vclass(name)} op={op.name}",
                          {"sig": sig, "variant": name, "row": ri, "why": msg,
                           "self": cases[ri][0].describe(), "args": [E.describe_arg(a) for a in cases[ri][1]]})
    if op.result == "vec" and exp and exp[0][0] == "ok":
        e0 = exp[0][1]
        if var["backend"] == "awkward":
            want = ("Momentum" if e0.momentum else "Vector") + f"{e0.dim}D"
            if meta.get("recname") != want:
                res.violation(f"{prop}/result-record-name variant={_vclass(name)} op={op.name}",
                              {"sig": sig, "variant": name, "got": meta.get("recname"), "expected": want, "fields": meta.get("fields")})
            elif meta.get("is_vector") is False:
                res.violation(f"{prop}/result-is-not-a-vector variant={_vclass(name)} op={op.name}",
                              {"sig": sig, "variant": name, "type": type(out).__name__, "fields": meta.get("fields")})
        else:
            cls = type(out).__name__
            want = ("MomentumNumpy" if e0.momentum else "VectorNumpy") + f"{e0.dim}D"
            if cls != want:
                res.violation(f"{prop}/result-class variant={_vclass(name)} op={op.name}", {"sig": sig, "variant": name, "got": cls, "expected": want})
    if compared or not rowmap:
        res.cell(sig, name)
    if len(res.samples) < 6 and compared:
        res.sample({"sig": sig, "variant": name, "n_compared": compared, "self0": cases[0][0].describe()})


def _vclass(name):
    """variant class for mechanism keys (no route / spelling details that vary run to run)"""
    return name.replace(":zip", "").replace(":Array", "")
