"""Bind the run to a source tree and refuse to run against anything else.

`VERIF_REPO` (default /repo) names the tree under test.  `bind()` puts
`<repo>/src` first on sys.path *before* `vector` is imported, then asserts that
the imported package and every compute module really live under it.
"""
from __future__ import annotations

import hashlib
import os
import subprocess
import sys

_BOUND = None


def repo_root() -> str:
    return os.path.realpath(os.environ.get("VERIF_REPO", "/repo"))


def bind():
    global _BOUND
    if _BOUND is not None:
        return _BOUND
    root = repo_root()
    src = os.path.join(root, "src")
    if not os.path.isdir(os.path.join(src, "vector")):
        raise SystemExit(f"INCONCLUSIVE reason=no vector sources under {src}")
    if "vector" in sys.modules:
        raise RuntimeError("vector imported before bind()")
    sys.path.insert(0, src)
    os.environ.setdefault("SCIKIT_HEP_VECTOR_VERIF", "1")
    import vector  # noqa: F401
    import vector._compute.lorentz  # noqa: F401
    import vector._compute.planar  # noqa: F401
    import vector._compute.spatial  # noqa: F401

    bad = []
    for name, mod in list(sys.modules.items()):
        if name == "vector" or name.startswith("vector."):
            f = getattr(mod, "__file__", None)
            if f and not os.path.realpath(f).startswith(src + os.sep):
                bad.append((name, f))
    if bad:
        raise SystemExit(f"INCONCLUSIVE reason=vector imported from elsewhere: {bad[:3]}")
    _BOUND = {"repo": root, "src": src}
    return _BOUND


def tree_identity() -> dict:
    """Source identity for the evidence file (HEAD + hash of working-tree sources)."""
    root = repo_root()
    h = hashlib.sha256()
    n = 0
    for dirpath, dirnames, filenames in sorted(os.walk(os.path.join(root, "src", "vector"))):
        dirnames.sort()
        if "__pycache__" in dirpath:
            continue
        for fn in sorted(filenames):
            if fn.endswith(".py"):
                p = os.path.join(dirpath, fn)
                h.update(os.path.relpath(p, root).encode())
                with open(p, "rb") as f:
                    h.update(f.read())
                n += 1
    try:
        head = subprocess.run(
            ["git", "-C", root, "rev-parse", "HEAD"], capture_output=True, text=True, timeout=20
        ).stdout.strip()
    except Exception:  # pragma: no cover
        head = "unknown"
    return {"repo": root, "head": head, "src_sha256": h.hexdigest(), "py_files": n}
