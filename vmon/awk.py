"""Awkward layout generator and structure helpers (DESIGN §2.6, §3 C03/C18).

A *structure* is a nested python list whose leaves are row indices (ints) or
None (a missing element); None can also stand for a missing list.  From one
structure and a table of rows the same logical array is built through each
documented route, with or without momentum spellings and extra fields.
"""
from __future__ import annotations

import numpy

from . import backends as B
from . import refmodel as R


def structures(n):
    """layout name -> structure over row indices 0..n-1 (n >= 8)"""
    idx = list(range(n))
    h = n // 2
    return {
        "flat": idx,
        "jagged": [idx[:2], [], idx[2:h], idx[h:]],
        "nested3": [[idx[:1], idx[1:3]], [], [[], idx[3:h]], [idx[h:]]],
        "option_list": [idx[:2], None, idx[2:3], [], idx[3:]],
        "option_leaf": [[idx[0], None, idx[1]], idx[2:h] + [None], idx[h:]],
        "empty_outer": [],
        "single": [idx[:1]],
    }


def map_struct(struct, f):
    if struct is None:
        return None
    if isinstance(struct, list):
        return [map_struct(e, f) for e in struct]
    return f(struct)


def skeleton(x):
    """nested-list shape with leaves replaced by 0 / None"""
    if x is None:
        return None
    if isinstance(x, list):
        return [skeleton(e) for e in x]
    return 0


def flat_leaves(x):
    """leaves of a to_list() result in order; None leaves kept, None lists contribute one None"""
    out = []

    def rec(e):
        if isinstance(e, list):
            for k in e:
                rec(k)
        else:
            out.append(e)
    rec(x)
    return out


def struct_rows(struct):
    """for every leaf position of skeleton(struct) (in flat_leaves order): the row index or None"""
    return flat_leaves(struct)


def build(system, rows, momentum, struct, route="zip", spelling=0, extra=False, regular=False, reverse_fields=False):
    """Returns an Awkward vector array with the given structure.

    route: 'zip' (vector.zip of per-coordinate columns; missing leaves become option-typed *fields*),
           'Array' (vector.Array of a list of records; missing leaves become option-typed *records*),
           'with_name' (ak.zip(..., with_name=..., behavior=vector behaviors) keeping momentum field names)
    """
    import awkward as ak

    import vector
    import vector.backends.awkward as vba

    names = B.names_for(system, momentum, spelling)
    if momentum and not any(n in B.GENERIC_OF for n in names):
        momentum = False
    dim = len(system) + 1
    flavor = "Momentum" if momentum else "Vector"

    def col(i):
        return ak.Array(map_struct(struct, lambda r: float(rows[r][i]))) if not _is_empty(struct) else ak.Array(numpy.zeros(0))

    if route in ("zip", "with_name"):
        if _is_empty(struct):
            cols = {n: ak.Array(numpy.zeros(0, dtype=numpy.float64)) for n in names}
        else:
            cols = {n: col(i) for i, n in enumerate(names)}
        if extra:
            cols["charge"] = ak.Array(map_struct(struct, lambda r: int(r % 3 - 1))) if not _is_empty(struct) else ak.Array(numpy.zeros(0, dtype=numpy.int64))
        if reverse_fields:
            cols = dict(reversed(list(cols.items())))
        if regular:
            cols = {k: ak.to_regular(v, axis=1) for k, v in cols.items()}
        if route == "zip":
            return vector.zip(cols)
        return ak.zip(cols, with_name=f"{flavor}{dim}D", behavior=vba.behavior)
    if route == "Array":
        def rec(r):
            d = {n: float(rows[r][i]) for i, n in enumerate(names)}
            if extra:
                d["charge"] = int(r % 3 - 1)
            return d
        data = map_struct(struct, rec)
        arr = ak.Array(data)
        if regular:
            arr = ak.to_regular(arr, axis=1)
        return vector.Array(arr)
    raise ValueError(route)


def _is_empty(struct):
    return isinstance(struct, list) and len(struct) == 0


def result_vectors(res):
    """(system, record name, to_list rows as nested structure of coordinate tuples / None)"""
    import awkward as ak

    fields = ak.fields(res)
    gen = {}
    coords = ("x", "y", "rho", "phi", "z", "theta", "eta", "t", "tau")
    for n in fields:  # generic names win over momentum synonyms, as in the library's from_momentum_fields
        if n in coords:
            gen[n] = n
    for n in fields:
        g = B.GENERIC_OF.get(n)
        if g is not None and g not in gen:
            gen[g] = n
    system = B.fields_system(gen.keys())
    return system, gen


def recname(arr):
    import awkward as ak

    t = arr.layout if hasattr(arr, "layout") else None
    if isinstance(arr, ak.Record):
        return arr.layout.array.parameter("__record__")
    lay = arr.layout
    while True:
        p = lay.parameter("__record__") if hasattr(lay, "parameter") else None
        if p is not None:
            return p
        if hasattr(lay, "content"):
            lay = lay.content
        else:
            return None
