"""Awkward layout generator and structure helpers (DESIGN §2.6, §3 C03/C18).

A *structure* is a nested python list whose leaves are row indices (ints) or
None (a missing element); None can also stand for a missing list.  From one
structure and a table of rows the same logical array is built through each
documented route, with or without momentum spellings and extra fields.
"""
from __future__ import annotations

import numpy

from . import backends as B
from . import refmodel as R


def structures(n):
    """layout name -> structure over row indices 0..n-1 (n >= 8)"""
    idx = list(range(n))
    h = n // 2
    return {
        "flat": idx,
        "jagged": [idx[:2], [], idx[2:h], idx[h:]],
        "nested3": [[idx[:1], idx[1:3]], [], [[], idx[3:h]], [idx[h:]]],
        "option_list": [idx[:2], None, idx[2:3], [], idx[3:]],
        "option_leaf": [[idx[0], None, idx[1]], idx[2:h] + [None], idx[h:]],
        "empty_outer": [],
        "single": [idx[:1]],
    }


def map_struct(struct, f):
    if struct is None:
        return None
    if isinstance(struct, list):
        return [map_struct(e, f) for e in struct]
    return f(struct)


def skeleton(x):
    """nested-list shape with leaves replaced by 0 / None"""
    if x is None:
        return None
    if isinstance(x, list):
        return [skeleton(e) for e in x]
    return 0


def flat_leaves(x):
    """leaves of a to_list() result in order; None leaves kept, None lists contribute one None"""
    out = []

    def rec(e):
        if isinstance(e, list):
            for k in e:
                rec(k)
        else:
            out.append(e)
    rec(x)
    return out


def struct_rows(struct):
    """for every leaf position of skeleton(struct) (in flat_leaves order): the row index or None"""
    return flat_leaves(struct)


def build(system, rows, momentum, struct, route="zip", spelling=0, extra=False, regular=False, reverse_fields=False, input_kind=None,
          names_override=None):
    """Returns an Awkward vector array with the given structure.

    route: 'zip' (vector.zip of per-coordinate columns; missing leaves become option-typed *fields*),
           'Array' (vector.Array of a list of records; missing leaves become option-typed *records*),
           'with_name' (ak.zip(..., with_name=..., behavior=vector behaviors) keeping momentum field names)
    """
    import awkward as ak

    import vector
    import vector.backends.awkward as vba

    names = list(names_override) if names_override else B.names_for(system, momentum, spelling)
    if momentum and not any(n in B.GENERIC_OF for n in names):
        momentum = False
    dim = len(system) + 1
    flavor = "Momentum" if momentum else "Vector"

    def col(i):
        return ak.Array(map_struct(struct, lambda r: float(rows[r][i]))) if not _is_empty(struct) else ak.Array(numpy.zeros(0))

    if route in ("zip", "with_name"):
        if _is_empty(struct):
            cols = {n: ak.Array(numpy.zeros(0, dtype=numpy.float64)) for n in names}
        else:
            cols = {n: col(i) for i, n in enumerate(names)}
        if extra:
            cols["charge"] = ak.Array(map_struct(struct, lambda r: int(r % 3 - 1))) if not _is_empty(struct) else ak.Array(numpy.zeros(0, dtype=numpy.int64))
        depth_limit = None
        if extra == "nested" and not _is_empty(struct):
            # extra fields that are deeper than the vectors (a list and a string per vector): zipped only down to the
            # vectors' own depth, as a user carrying per-particle hit lists does
            depth_limit = cols[names[0]].layout.purelist_depth
            cols["hits"] = ak.Array(map_struct(struct, lambda r: [float(r), float(r) + 0.5, -1.0][: (r % 4)]))
            cols["label"] = ak.Array(map_struct(struct, lambda r: f"trk{r}"))
        if reverse_fields:
            cols = dict(reversed(list(cols.items())))
        if regular:
            cols = {k: ak.to_regular(v, axis=1) for k, v in cols.items()}
        if input_kind is not None:
            # the *inputs* of the constructor in another physical layout (columns that come out of a selection, a file, ...);
            # every column gets its own kind
            kinds_ = [k_ for k_ in PHYSICAL if k_ in ("listarray-gaps", "sliced-offsets", "indexed-lists", "strided-leaves")]
            start = kinds_.index(input_kind) if input_kind in kinds_ else 0
            new_cols = {}
            for ci, (k, v) in enumerate(cols.items()):
                tw = relayout(v, kinds_[(start + ci) % len(kinds_)]) if isinstance(v, ak.Array) else None
                new_cols[k] = tw if tw is not None else v
            cols = new_cols
        if route == "zip":
            return vector.zip(cols, depth_limit=depth_limit)
        return ak.zip(cols, depth_limit=depth_limit, with_name=f"{flavor}{dim}D", behavior=None if vector._awkward_registered else vba.behavior)
    if route == "Array":
        def rec(r):
            d = {n: float(rows[r][i]) for i, n in enumerate(names)}
            if extra:
                d["charge"] = int(r % 3 - 1)
            if extra == "nested":
                d["hits"] = [float(r), float(r) + 0.5, -1.0][: (r % 4)]
                d["label"] = f"trk{r}"
            return d
        data = map_struct(struct, rec)
        arr = ak.Array(data)
        if regular:
            arr = ak.to_regular(arr, axis=1)
        if input_kind is not None:
            tw = relayout(arr, input_kind)
            arr = tw if tw is not None else arr
        return vector.Array(arr)
    raise ValueError(route)


def _is_empty(struct):
    return isinstance(struct, list) and len(struct) == 0


def result_vectors(res):
    """(system, record name, to_list rows as nested structure of coordinate tuples / None)"""
    import awkward as ak

    fields = ak.fields(res)
    gen = {}
    coords = ("x", "y", "rho", "phi", "z", "theta", "eta", "t", "tau")
    for n in fields:  # generic names win over momentum synonyms, as in the library's from_momentum_fields
        if n in coords:
            gen[n] = n
    for n in fields:
        g = B.GENERIC_OF.get(n)
        if g is not None and g not in gen:
            gen[g] = n
    system = B.fields_system(gen.keys())
    return system, gen


def recname(arr):
    import awkward as ak

    t = arr.layout if hasattr(arr, "layout") else None
    if isinstance(arr, ak.Record):
        return arr.layout.array.parameter("__record__")
    lay = arr.layout
    while True:
        p = lay.parameter("__record__") if hasattr(lay, "parameter") else None
        if p is not None:
            return p
        if hasattr(lay, "content"):
            lay = lay.content
        else:
            return None


# ---------------------------------------------------------------------------
# physical layout twins: the same logical array (same to_list, same record name, same behavior) held in a different
# physical Awkward layout.  Real analyses meet these all the time (a selection gives IndexedArray / ListArray, ak.mask a
# ByteMaskedArray, reading a file gives non-zero offsets, ...), the constructors above never produce them.

PHYSICAL = ("listarray-gaps", "indexed-records", "sliced-offsets", "bytemasked-allvalid", "unmasked", "bitmasked-allvalid",
            "strided-leaves", "indexed-lists")


def relayout(arr, kind):
    import awkward as ak
    from awkward.contents import (BitMaskedArray, ByteMaskedArray, IndexedArray, IndexedOptionArray, ListArray,
                                  ListOffsetArray, NumpyArray, RecordArray, RegularArray, UnmaskedArray)
    from awkward.index import Index8, Index64, IndexU8

    done = {"n": 0}

    def rec(lay):
        if isinstance(lay, ListOffsetArray):
            content = rec(lay.content)
            offsets = numpy.asarray(lay.offsets)
            nl = len(offsets) - 1
            if kind == "listarray-gaps" and len(lay.content) > 0:
                # lists stored in reverse order with one junk element between them; starts/stops pick them out
                idx, starts, stops = [], numpy.zeros(nl, numpy.int64), numpy.zeros(nl, numpy.int64)
                for li in reversed(range(nl)):
                    idx.append(0)  # junk, never reachable
                    starts[li] = len(idx)
                    idx.extend(range(int(offsets[li]), int(offsets[li + 1])))
                    stops[li] = len(idx)
                new_content = content._carry(Index64(numpy.array(idx, numpy.int64)), False)
                done["n"] += 1
                return ListArray(Index64(starts), Index64(stops), new_content, parameters=lay.parameters)
            if kind == "sliced-offsets" and nl > 0:
                # two junk lists in front and an untrimmed content: offsets start at a non-zero position
                k = 3 if len(content) else 0
                if k:
                    take = numpy.concatenate([numpy.zeros(k, numpy.int64), numpy.arange(len(content), dtype=numpy.int64)])
                    new_content = content._carry(Index64(take), False)
                else:
                    new_content = content
                new_off = numpy.concatenate([[0, 1 if k else 0], offsets + k]).astype(numpy.int64)
                done["n"] += 1
                return ListOffsetArray(Index64(new_off), new_content, parameters=lay.parameters)[2:]
            if kind == "indexed-lists" and nl > 1:
                perm = numpy.arange(nl)[::-1].copy()
                shuffled = ListOffsetArray(lay.offsets, content, parameters=lay.parameters)._carry(Index64(perm), False)
                done["n"] += 1
                return IndexedArray(Index64(perm.copy()), shuffled)   # perm is its own inverse
            return ListOffsetArray(lay.offsets, content, parameters=lay.parameters)
        if isinstance(lay, RegularArray):
            return RegularArray(rec(lay.content), lay.size, lay.length, parameters=lay.parameters)
        if isinstance(lay, IndexedOptionArray):
            return IndexedOptionArray(lay.index, rec(lay.content), parameters=lay.parameters)
        if isinstance(lay, RecordArray):
            n = lay.length
            contents = [rec(c) for c in lay.contents]
            new = RecordArray(contents, lay.fields, length=n, parameters=lay.parameters)
            if kind == "indexed-records" and n > 1:
                perm = numpy.roll(numpy.arange(n), 1)
                inv = numpy.argsort(perm)
                done["n"] += 1
                return IndexedArray(Index64(inv), new._carry(Index64(perm), False))
            if kind == "bytemasked-allvalid":
                done["n"] += 1
                return ByteMaskedArray(Index8(numpy.ones(n, numpy.int8)), new, valid_when=True)
            if kind == "bitmasked-allvalid":
                done["n"] += 1
                nbytes = (n + 7) // 8
                return BitMaskedArray(IndexU8(numpy.full(nbytes, 255, numpy.uint8)), new, valid_when=True, length=n, lsb_order=True)
            if kind == "unmasked":
                done["n"] += 1
                return UnmaskedArray(new)
            return new
        if isinstance(lay, NumpyArray):
            if kind == "strided-leaves" and lay.data.ndim == 1:
                data = numpy.asarray(lay.data)
                wide = numpy.full(2 * len(data) + 1, -9.75 if data.dtype.kind == "f" else 7, dtype=data.dtype)
                wide[1::2] = data
                done["n"] += 1
                return NumpyArray(wide[1::2], parameters=lay.parameters)
            return lay
        return lay

    try:
        new = rec(arr.layout)
    except TypeError:
        return None  # not a valid layout (an option around an indexed node)
    if not done["n"]:
        return None
    return ak.Array(new, behavior=arr.behavior)
