"""Seeded, stratified operand generators (DESIGN §2.3).

Every draw is reproducible from (seed, shard, index): callers create
`random.Random(f"{seed}:{shard}:{tag}")`.  Vectors are generated as exact
Cartesian `RV`s (dyadic rationals, so they are exactly representable both as
mpf and — in Cartesian storage — as float64) together with a stratum label.
"""
from __future__ import annotations

import random

import mpmath
from mpmath import mpf

from . import refmodel as R

SIGNS3 = [(sx, sy, sz) for sx in (1, -1) for sy in (1, -1) for sz in (1, -1)]


def rng(seed, *tags):
    return random.Random(":".join(str(t) for t in (seed, *tags)))


def dyadic(r, lo, hi, bits=20):
    """uniform dyadic rational in [lo, hi] with `bits` fractional bits"""
    n = r.randint(int(lo * (1 << bits)), int(hi * (1 << bits)))
    return mpf(n) / (1 << bits)


def _mag_scale(r, wide):
    if not wide:
        return mpf(1)
    return mpf(2) ** r.choice([-20, -10, -3, 0, 0, 0, 3, 10, 20])


def vec2(r, core=False, wide=False):
    sx, sy = r.choice([(1, 1), (1, -1), (-1, 1), (-1, -1)])
    s = _mag_scale(r, wide)
    x = sx * dyadic(r, 0.1, 10) * s
    y = sy * dyadic(r, 0.1, 10) * s
    return R.RV(x, y), f"q{'+' if sx > 0 else '-'}{'+' if sy > 0 else '-'}"


def vec3(r, core=False, wide=False, kind=None):
    sx, sy, sz = r.choice(SIGNS3)
    s = _mag_scale(r, wide)
    kind = kind or r.choice(["generic"] * 12 + ["zero-x", "zero-y", "zero-z"] + (["nearaxis", "planeish"] * 2 if not core else []))
    x = sx * dyadic(r, 0.1, 10)
    y = sy * dyadic(r, 0.1, 10)
    z = sz * dyadic(r, 0.1, 10)
    if kind == "zero-x":     # one Cartesian component exactly zero (representable in every system)
        x = mpf(0)
    elif kind == "zero-y":
        y = mpf(0)
    elif kind == "zero-z":
        z = mpf(0)
    if kind == "nearaxis":
        f = mpf(2) ** r.choice([-10, -20])
        x, y = x * f, y * f
    elif kind == "planeish":
        z = z * mpf(2) ** r.choice([-10, -20])
    lab = "s" + "".join("+" if v > 0 else "-" for v in (sx, sy, sz)) + ":" + kind
    return R.RV(x * s, y * s, z * s), lab


def vec4(r, core=False, wide=False, causal=None, forward=None):
    v3, lab = vec3(r, core=core, wide=wide)
    causal = causal or r.choice(["timelike"] * 5 + ["spacelike"] * 2 + ([] if core else ["nearcone+", "nearcone-"]))
    if forward is None:
        forward = True if core else r.random() < 0.85
    mag = v3.mag
    # choose t as a dyadic number so that all Cartesian components stay exact
    if causal == "timelike":
        f = dyadic(r, 1.05, 3.0)
    elif causal == "spacelike":
        f = dyadic(r, 0.1, 0.95)
    elif causal == "nearcone+":
        f = 1 + mpf(2) ** r.choice([-10, -20])
    else:
        f = 1 - mpf(2) ** r.choice([-10, -20])
    t = _round_dyadic(mag * f, 40)
    if not forward:
        t = -t
    return R.RV(v3.x, v3.y, v3.z, t), lab + ":" + causal + (":fwd" if forward else ":bwd")


def _round_dyadic(v, bits):
    """round an mpf to a dyadic rational with `bits` significant bits"""
    if v == 0:
        return v
    m, e = mpmath.frexp(v)
    return mpmath.ldexp(mpmath.floor(mpmath.ldexp(m, bits) + mpf(1) / 2), e - bits)


def vec(r, dim, **kw):
    if dim == 2:
        kw.pop("causal", None)
        kw.pop("forward", None)
        kw.pop("kind", None)
        return vec2(r, **kw)
    if dim == 3:
        kw.pop("causal", None)
        kw.pop("forward", None)
        return vec3(r, **kw)
    kw.pop("kind", None)
    return vec4(r, **kw)


def angle(r, core=False):
    k = r.random()
    if k < 0.04:
        return mpf(0)  # the exactly-zero stratum (identity rotation)
    if core or k < 0.7:
        return dyadic(r, -3.1, 3.1)
    if k < 0.8:
        return mpf(r.choice([-2, -1, 1, 2])) * mpmath.pi / 2 + dyadic(r, -0.01, 0.01)
    if k < 0.9:
        return dyadic(r, -40, 40)
    return dyadic(r, -0.001, 0.001)


def factor(r, core=False):
    if r.random() < 0.04:
        return mpf(0)  # the exactly-zero stratum (v * mask, scale(0)): the zero vector
    s = r.choice([1, 1, -1])
    v = s * dyadic(r, 0.1, 5)
    return v


def beta(r, core=False, mp=True):
    k = r.random()
    s = r.choice([1, -1])
    if k < 0.04:
        return mpf(0)  # zero velocity: the identity boost
    if core or k < 0.7:
        return s * dyadic(r, 0.01, 0.9)
    if not mp:
        return s * dyadic(r, 0.9, 0.95)
    # ultra-relativistic strata (60-digit runs only): gamma from 11 up to 2.4e7 -- beyond any "safety floor" a kernel might
    # put under 1 - beta**2
    return s * (1 - mpf(2) ** r.choice([-8, -16, -30, -44, -50]))


def gamma(r, core=False):
    s = r.choice([1, -1])
    if r.random() < 0.04:
        return mpf(s)  # gamma = +-1 exactly: the identity boost
    if core:
        return s * dyadic(r, 1.05, 3)
    return s * r.choice([dyadic(r, 1.01, 5), dyadic(r, 5, 100)])


def beta3(r, core=False, mp=True):
    """velocity 3-vector with |beta| < 1"""
    v, lab = vec3(r, core=True)
    if r.random() < 0.05:
        return R.RV(0, 0, 0), lab + ":zero"  # representable only with z-longitudinal storage
    n = v.mag
    b = abs(beta(r, core=core, mp=mp))
    k = _round_dyadic(b / n, 40)
    out = R.RV(v.x * k, v.y * k, v.z * k)
    if out.mag >= 1:  # rounding pushed it out; shrink
        out = R.RV(out.x / 2, out.y / 2, out.z / 2)
    return out, lab


def matrix(r, n):
    names = "xyzt"[:n]
    return {a + b: dyadic(r, -2, 2, bits=12) for a in names for b in names}


def quaternion(r, unit=True):
    q = [dyadic(r, -1, 1) for _ in range(4)]
    if all(v == 0 for v in q):
        q[0] = mpf(1)
    if unit:
        n = mpmath.sqrt(sum(v * v for v in q))
        q = [v / n for v in q]
    return q


def tol(r):
    return r.choice([mpf(0), mpf(10) ** -12, mpf(10) ** -5, mpf("0.01"), mpf("0.2"), mpf("0.5")])
