"""The operation catalogue (DESIGN §2.4): one record per public operation with
its arity, argument kinds, result kind, public-API call and reference-model
function, plus a completeness guard against the live API."""
from __future__ import annotations

from dataclasses import dataclass, field
from typing import Callable

import mpmath
from mpmath import mpf

from . import refmodel as R


@dataclass
class Op:
    name: str
    dims: tuple            # dimensions of `self` for which the operation exists
    args: tuple = ()       # kinds of the remaining arguments
    result: str = "scalar"  # scalar | angle | bool | vec
    call: Callable = None  # (v, *args) -> result via the public API
    ref: Callable = None   # (rv, *refargs) -> mpf | bool | RV ; may raise Undefined
    power: int = 1         # physical dimension of a scalar result (0 ratio/angle, 1 length, 2 square)
    resdim: Callable = None  # self.dim -> dimension of a vector result
    partial: int = 0       # k>0: documented exception, acts on the k-dim part, keeps higher *stored* coords
    momentum_only: bool = False
    is_property: bool = False
    modules: tuple = ()    # compute modules the call dispatches to (for the variant tap)
    other_dims: Callable = None  # self.dim -> tuple of dims allowed for the vector argument
    predicate_margin: Callable = None  # (refargs...) -> distance from the decision boundary
    group: str = ""


OPS: dict[str, Op] = {}


def _reg(op):
    assert op.name not in OPS, op.name
    OPS[op.name] = op
    return op


def _prop(name, dims, ref, result="scalar", power=1, **kw):
    return _reg(Op(name, dims, (), result, (lambda n: lambda v: getattr(v, n))(name), ref, power,
                   is_property=True, **kw))


def _meth(name, dims, args, ref, result="scalar", power=1, **kw):
    op = _reg(Op(name, dims, args, result, (lambda n: lambda v, *a: getattr(v, n)(*a))(name), ref, power, **kw))
    op.positional_call = op.call  # still `op.call` later <=> the call passes its arguments positionally, in order
    return op


_PINNED = None


def pinned_params(cls, name):
    """[(parameter name, kind, repr(default) or None)] of a public method as pinned from the documented signatures of the
    pinned tree (vmon/api_params.json), looked up through the MRO (the 60-digit classes subclass the object classes)"""
    global _PINNED
    if _PINNED is None:
        import json
        import os

        with open(os.path.join(os.path.dirname(os.path.abspath(__file__)), "api_params.json")) as f:
            _PINNED = json.load(f)
    for c in cls.__mro__:
        if c.__name__ in _PINNED:
            return _PINNED[c.__name__].get(name)
    return None


def keyword_call(op, v, args):
    """the same public call with every argument passed by keyword, under the *documented* parameter names (pinned in
    api_params.json, not read from the live signature: a renamed parameter must not go unnoticed);
    None when the catalogue's call is not the plain positional one"""
    if getattr(op, "positional_call", None) is not op.call or not args:
        return None
    pinned = pinned_params(type(v), op.name)
    if pinned is None:
        return None
    params = [p[0] for p in pinned if p[1] in ("POSITIONAL_OR_KEYWORD", "KEYWORD_ONLY")]
    if len(params) < len(args):
        return None
    return lambda: getattr(v, op.name)(**dict(zip(params, args)))


def signature_drift():
    """differences between the live signatures of the public methods of the six object classes and the pinned ones that
    break a documented call: a parameter removed, renamed, reordered, changed in kind or in default value (new
    optional parameters are compatible and ignored).  -> [(class, method, what)]"""
    import inspect

    import vector

    pinned_params(vector.VectorObject2D, "x")
    out = []
    for cname, meths in _PINNED.items():
        cls = getattr(vector, cname)
        for name, pinned in meths.items():
            m = getattr(cls, name, None)
            if m is None:
                out.append((cname, name, "method removed"))
                continue
            try:
                live = [(p.name, p.kind.name, None if p.default is p.empty else repr(p.default))
                        for p in list(inspect.signature(m).parameters.values())[1:]]
            except (TypeError, ValueError):
                continue
            live_names = [p[0] for p in live]
            pos_pinned = [p[0] for p in pinned if p[1] == "POSITIONAL_OR_KEYWORD"]
            pos_live = [p[0] for p in live if p[1] == "POSITIONAL_OR_KEYWORD"]
            if pos_live[: len(pos_pinned)] != pos_pinned:
                out.append((cname, name, f"positional parameters {pos_live} (documented {pos_pinned})"))
                continue
            for p in pinned:
                if p[1] in ("VAR_KEYWORD", "VAR_POSITIONAL"):
                    continue
                if p[0] not in live_names:
                    out.append((cname, name, f"parameter {p[0]!r} no longer accepted"))
                else:
                    q = live[live_names.index(p[0])]
                    if q[1] != p[1] and not (p[1] == "KEYWORD_ONLY" and q[1] == "POSITIONAL_OR_KEYWORD"):
                        out.append((cname, name, f"parameter {p[0]!r} is now {q[1]} (documented {p[1]})"))
                    elif q[2] != p[2]:
                        out.append((cname, name, f"default of {p[0]!r} is now {q[2]} (documented {p[2]})"))
    return out


same = lambda d: (d,)  # noqa: E731
D234 = (2, 3, 4)
D34 = (3, 4)
D4 = (4,)

# --- accessors -------------------------------------------------------------
_prop("x", D234, lambda a: a.x, group="accessor")
_prop("y", D234, lambda a: a.y, group="accessor")
_prop("rho", D234, lambda a: a.rho, group="accessor")
_prop("rho2", D234, lambda a: a.rho2, power=2, group="accessor")
_prop("phi", D234, lambda a: a.phi, result="angle", power=0, group="accessor")
_prop("z", D34, lambda a: a.z, group="accessor")
_prop("theta", D34, lambda a: a.theta, power=0, group="accessor")
_prop("eta", D34, lambda a: a.eta, power=0, group="accessor")
_prop("costheta", D34, lambda a: a.costheta, power=0, group="accessor")
_prop("cottheta", D34, lambda a: a.cottheta, power=0, group="accessor")
_prop("mag", D34, lambda a: a.mag, group="accessor")
_prop("mag2", D34, lambda a: a.mag2, power=2, group="accessor")
_prop("t", D4, lambda a: a.t, group="accessor")
_prop("t2", D4, lambda a: a.t2, power=2, group="accessor")
_prop("tau", D4, lambda a: a.tau, group="accessor")
_prop("tau2", D4, lambda a: a.tau2, power=2, group="accessor")
_prop("beta", D4, lambda a: a.beta, power=0, group="accessor")
_prop("gamma", D4, lambda a: a.gamma, power=0, group="accessor")
_prop("rapidity", D4, lambda a: a.rapidity, power=0, group="accessor")
for _n in ("Et", "et", "transverse_energy"):
    _prop(_n, D4, lambda a: a.Et, momentum_only=True, group="accessor")
for _n in ("Et2", "et2", "transverse_energy2"):
    _prop(_n, D4, lambda a: a.Et2, power=2, momentum_only=True, group="accessor")
for _n in ("Mt", "mt", "transverse_mass"):
    _prop(_n, D4, lambda a: a.Mt, momentum_only=True, group="accessor")
for _n in ("Mt2", "mt2", "transverse_mass2"):
    _prop(_n, D4, lambda a: a.Mt2, power=2, momentum_only=True, group="accessor")

# momentum synonyms (exact synonyms are C14's business; here they are just more names)
_SYN = {"px": "x", "py": "y", "pt": "rho", "pt2": "rho2", "pz": "z", "p": "mag", "p2": "mag2",
        "pseudorapidity": "eta", "E": "t", "e": "t", "energy": "t", "E2": "t2", "e2": "t2", "energy2": "t2",
        "M": "tau", "m": "tau", "mass": "tau", "M2": "tau2", "m2": "tau2", "mass2": "tau2"}
for _s, _g in _SYN.items():
    g = OPS[_g]
    _reg(Op(_s, g.dims, (), g.result, (lambda n: lambda v: getattr(v, n))(_s), g.ref, g.power,
            momentum_only=True, is_property=True, group="synonym"))

# --- unary vector-valued ---------------------------------------------------
_prop("neg2D", D234, lambda a: R.op_neg(a, 2), result="vec", group="vecop")
_prop("neg3D", D34, lambda a: R.op_neg(a, 3), result="vec", group="vecop")
_prop("neg4D", D4, lambda a: R.op_neg(a, 4), result="vec", group="vecop")
_meth("unit", D234, (), R.op_unit, result="vec", power=0, group="vecop")
_meth("to_beta3", D4, (), R.op_to_beta3, result="vec", power=0, resdim=lambda d: 3, group="boost")

_meth("scale", D234, ("factor",), lambda a, f: R.op_scale(a, f), result="vec", group="vecop")
_meth("scale2D", D234, ("factor",), lambda a, f: R.op_scale(a, f, 2), result="vec", partial=2, group="vecop")
_meth("scale3D", D34, ("factor",), lambda a, f: R.op_scale(a, f, 3), result="vec", partial=3, group="vecop")
_meth("scale4D", D4, ("factor",), lambda a, f: R.op_scale(a, f, 4), result="vec", group="vecop")

_meth("rotateZ", D234, ("angle",), R.op_rotateZ, result="vec", group="rotation")
_meth("rotateX", D34, ("angle",), R.op_rotateX, result="vec", group="rotation")
_meth("rotateY", D34, ("angle",), R.op_rotateY, result="vec", group="rotation")
_meth("rotate_euler", D34, ("angle", "angle", "angle", "order"), R.op_rotate_euler, result="vec", group="rotation")
_meth("rotate_nautical", D34, ("angle", "angle", "angle"), R.op_rotate_nautical, result="vec", group="rotation")
_meth("rotate_quaternion", D34, ("quat",), lambda a, q: R.op_rotate_quaternion(a, *q), result="vec", group="rotation")
OPS["rotate_quaternion"].call = lambda v, q: v.rotate_quaternion(*q)

_meth("transform2D", D234, ("mat2",), R.op_transform2D, result="vec", partial=2, group="transform")
_meth("transform3D", D34, ("mat3",), R.op_transform3D, result="vec", partial=3, group="transform")
_meth("transform4D", D4, ("mat4",), R.op_transform4D, result="vec", group="transform")

for _i, _ax in enumerate("XYZ"):
    _reg(Op(f"boost{_ax}_beta", D4, ("beta",), "vec",
            (lambda n: lambda v, b: getattr(v, n)(beta=b))(f"boost{_ax}"),
            (lambda i: lambda a, b: R.op_boost_axis_beta(a, i, b))(_i), group="boost"))
    _reg(Op(f"boost{_ax}_gamma", D4, ("gamma",), "vec",
            (lambda n: lambda v, g: getattr(v, n)(gamma=g))(f"boost{_ax}"),
            (lambda i: lambda a, g: R.op_boost_axis_gamma(a, i, g))(_i), group="boost"))

# --- causal predicates (C13 judges the contract; here: definitions away from thresholds)
_meth("is_timelike", D4, ("tol",), lambda a, tol: a.tau2 > abs(tol), result="bool",
      predicate_margin=lambda a, tol: abs(a.tau2 - abs(tol)) / max(a.t2, a.mag2, mpf(1) / 10**30), group="predicate")
_meth("is_spacelike", D4, ("tol",), lambda a, tol: a.tau2 < -abs(tol), result="bool",
      predicate_margin=lambda a, tol: min(abs(a.tau2 + abs(tol)), abs(a.tau2 - abs(tol))) / max(a.t2, a.mag2, mpf(1) / 10**30),
      group="predicate")
_meth("is_lightlike", D4, ("tol",), lambda a, tol: abs(a.tau2) < abs(tol), result="bool",
      predicate_margin=lambda a, tol: abs(abs(a.tau2) - abs(tol)) / max(a.t2, a.mag2, mpf(1) / 10**30), group="predicate")

# --- binary ----------------------------------------------------------------
_meth("add", D234, ("vec",), R.op_add, result="vec", other_dims=same, group="vecop")
_meth("subtract", D234, ("vec",), R.op_subtract, result="vec", other_dims=same, group="vecop")
_meth("dot", D234, ("vec",), R.op_dot, power=2, other_dims=same, group="vecop")
_meth("deltaphi", D234, ("vec",), R.op_deltaphi, result="angle", power=0, other_dims=lambda d: D234, group="delta")
_meth("cross", (3,), ("vec",), R.op_cross, result="vec", power=2, other_dims=lambda d: (3,), group="vecop")
_meth("deltaangle", D34, ("vec",), R.op_deltaangle, power=0, other_dims=lambda d: D34, group="delta")
_meth("deltaeta", D34, ("vec",), R.op_deltaeta, power=0, other_dims=lambda d: D34, group="delta")
_meth("deltaR", D34, ("vec",), R.op_deltaR, power=0, other_dims=lambda d: D34, group="delta")
_meth("deltaR2", D34, ("vec",), R.op_deltaR2, power=0, other_dims=lambda d: D34, group="delta")
_meth("deltaRapidityPhi", D4, ("vec",), R.op_deltaRapidityPhi, power=0, other_dims=lambda d: D4, group="delta")
_meth("deltaRapidityPhi2", D4, ("vec",), R.op_deltaRapidityPhi2, power=0, other_dims=lambda d: D4, group="delta")
_meth("rotate_axis", D34, ("vec", "angle"), R.op_rotate_axis, result="vec", other_dims=lambda d: (3,), group="rotation")

_meth("boost_p4", D4, ("p4",), R.op_boost_p4, result="vec", other_dims=lambda d: D4, group="boost")
_meth("boost_beta3", D4, ("beta3",), R.op_boost_beta3, result="vec", other_dims=lambda d: (3,), group="boost")
_reg(Op("boost(p4)", D4, ("p4",), "vec", lambda v, p: v.boost(p), R.op_boost_p4, other_dims=lambda d: D4, group="boost"))
_reg(Op("boost(beta3)", D4, ("beta3",), "vec", lambda v, b: v.boost(b), R.op_boost_beta3, other_dims=lambda d: (3,), group="boost"))
_meth("boostCM_of_p4", D4, ("p4",), lambda a, p: R.op_boost_p4(a, R.op_neg(p, 3)), result="vec", other_dims=lambda d: D4, group="boost")
_meth("boostCM_of_beta3", D4, ("beta3",), lambda a, b: R.op_boost_beta3(a, R.op_neg(b, 3)), result="vec", other_dims=lambda d: (3,), group="boost")
_reg(Op("boostCM_of(p4)", D4, ("p4",), "vec", lambda v, p: v.boostCM_of(p),
        lambda a, p: R.op_boost_p4(a, R.op_neg(p, 3)), other_dims=lambda d: D4, group="boost"))
_reg(Op("boostCM_of(beta3)", D4, ("beta3",), "vec", lambda v, b: v.boostCM_of(b),
        lambda a, b: R.op_boost_beta3(a, R.op_neg(b, 3)), other_dims=lambda d: (3,), group="boost"))


def _cosm(thr):
    def margin(a, b, tol):
        c = R.cos_between(a if a.dim < 4 else R.project(a, 3), b if b.dim < 4 else R.project(b, 3))
        return min(abs(c - t) for t in thr(abs(tol)))
    return margin


def _c3(a):
    return a if a.dim < 4 else R.project(a, 3)


_meth("is_parallel", D234, ("vec", "tol"), lambda a, b, tol: R.cos_between(_c3(a), _c3(b)) > 1 - abs(tol),
      result="bool", other_dims=same, predicate_margin=_cosm(lambda t: (1 - t,)), group="predicate")
_meth("is_antiparallel", D234, ("vec", "tol"), lambda a, b, tol: R.cos_between(_c3(a), _c3(b)) < -1 + abs(tol),
      result="bool", other_dims=same, predicate_margin=_cosm(lambda t: (-1 + t,)), group="predicate")
_meth("is_perpendicular", D234, ("vec", "tol"), lambda a, b, tol: abs(R.cos_between(_c3(a), _c3(b))) < abs(tol),
      result="bool", other_dims=same, predicate_margin=_cosm(lambda t: (t, -t)), group="predicate")

# equality family: C12 judges the fine structure; here only clear-cut cases
_meth("equal", D234, ("vec",), None, result="bool", other_dims=same, group="equality")
_meth("not_equal", D234, ("vec",), None, result="bool", other_dims=same, group="equality")
_meth("isclose", D234, ("vec", "rtol", "atol"), None, result="bool", other_dims=same, group="equality")

# --- conversions (same dimension or projections; embeddings are C04's) -------
CONVERSIONS = {}  # method name -> (target system, momentum spelling?)
_MOMC = {"x": "px", "y": "py", "rho": "pt", "z": "pz", "t": "energy", "tau": "mass"}
for _sys in R.ALL_SYSTEMS:
    _names = R.field_names(_sys)
    _g = "to_" + "".join(_names)
    _m = "to_" + "".join(_MOMC.get(n, n) for n in _names)
    CONVERSIONS[_g] = (_sys, False)
    CONVERSIONS[_m] = (_sys, True)
for _cname, (_sys, _ism) in CONVERSIONS.items():
    _td = len(_sys) + 1
    _reg(Op(_cname, tuple(d for d in D234 if d >= _td), (), "vec",
            (lambda n: lambda v: getattr(v, n)())(_cname),
            (lambda td: lambda a: R.project(a, td))(_td), resdim=(lambda td: lambda d: td)(_td), group="conversion"))
for _d in (2, 3, 4):
    for _n in (f"to_Vector{_d}D", f"to_{_d}D"):
        _reg(Op(_n, tuple(d for d in D234 if d >= _d), (), "vec", (lambda n: lambda v: getattr(v, n)())(_n),
                (lambda td: lambda a: R.project(a, td))(_d), resdim=(lambda td: lambda d: td)(_d), group="conversion"))


# --- embeddings with keyword-imputed coordinates (values judged here; bit-for-bit pass-through is C04's)
def _z_from(kind, a, v):
    a = mpf(a)
    if kind == "z":
        return a
    if kind == "theta":
        return v.rho / mpmath.tan(a)
    return v.rho * mpmath.sinh(a)


def _t_from(kind, a, x, y, z):
    a = mpf(a)
    if kind == "t":
        return a
    return mpmath.sqrt((a * a if a >= 0 else -a * a) + x * x + y * y + z * z)


_LK = {"z": ("z", "lonz"), "pz": ("z", "lonz"), "theta": ("theta", "lontheta"), "eta": ("eta", "loneta")}
_TK = {"t": ("t", "tt"), "E": ("t", "tt"), "energy": ("t", "tt"), "tau": ("tau", "ttau"), "mass": ("tau", "ttau"), "M": ("tau", "ttau")}
for _kw, (_ct, _ak) in _LK.items():
    for _mn in ("to_Vector3D", "to_3D"):
        _reg(Op(f"{_mn}({_kw}=)", (2,), (_ak,), "vec", (lambda mn, kw: lambda v, a: getattr(v, mn)(**{kw: a}))(_mn, _kw),
                (lambda ct: lambda v, a: R.RV(v.x, v.y, _z_from(ct, a, v)))(_ct), resdim=lambda d: 3, group="embedding"))
for _kw, (_ct, _ak) in _TK.items():
    for _mn in ("to_Vector4D", "to_4D"):
        _reg(Op(f"{_mn}({_kw}=)", (3,), (_ak,), "vec", (lambda mn, kw: lambda v, a: getattr(v, mn)(**{kw: a}))(_mn, _kw),
                (lambda ct: lambda v, a: R.RV(v.x, v.y, v.z, _t_from(ct, a, v.x, v.y, v.z)))(_ct), resdim=lambda d: 4, group="embedding"))
_reg(Op("to_Vector4D(z=,t=)", (2,), ("lonz", "tt"), "vec", lambda v, a, b: v.to_Vector4D(z=a, t=b),
        lambda v, a, b: R.RV(v.x, v.y, mpf(a), mpf(b)), resdim=lambda d: 4, group="embedding"))
_reg(Op("to_Vector4D(eta=,mass=)", (2,), ("loneta", "ttau"), "vec", lambda v, a, b: v.to_Vector4D(eta=a, mass=b),
        lambda v, a, b: R.RV(v.x, v.y, _z_from("eta", a, v), _t_from("tau", b, v.x, v.y, _z_from("eta", a, v))), resdim=lambda d: 4, group="embedding"))
_reg(Op("to_xyz(z=)", (2,), ("lonz",), "vec", lambda v, a: v.to_xyz(z=a), lambda v, a: R.RV(v.x, v.y, mpf(a)), resdim=lambda d: 3, group="embedding"))
_reg(Op("to_rhophieta(eta=)", (2,), ("loneta",), "vec", lambda v, a: v.to_rhophieta(eta=a),
        lambda v, a: R.RV(v.x, v.y, _z_from("eta", a, v)), resdim=lambda d: 3, group="embedding"))
_reg(Op("to_xytheta(theta=)", (2,), ("lontheta",), "vec", lambda v, a: v.to_xytheta(theta=a),
        lambda v, a: R.RV(v.x, v.y, _z_from("theta", a, v)), resdim=lambda d: 3, group="embedding"))
_reg(Op("to_xyzt(t=)", (3,), ("tt",), "vec", lambda v, a: v.to_xyzt(t=a), lambda v, a: R.RV(v.x, v.y, v.z, mpf(a)), resdim=lambda d: 4, group="embedding"))
_reg(Op("to_rhophietatau(tau=)", (3,), ("ttau",), "vec", lambda v, a: v.to_rhophietatau(tau=a),
        lambda v, a: R.RV(v.x, v.y, v.z, _t_from("tau", a, v.x, v.y, v.z)), resdim=lambda d: 4, group="embedding"))
_reg(Op("to_ptphietamass(eta=,mass=)", (2,), ("loneta", "ttau"), "vec", lambda v, a, b: v.to_ptphietamass(eta=a, mass=b),
        lambda v, a, b: R.RV(v.x, v.y, _z_from("eta", a, v), _t_from("tau", b, v.x, v.y, _z_from("eta", a, v))), resdim=lambda d: 4, group="embedding"))


# names of the public API that the catalogue deliberately does not drive as a generic
# operation, and which property handles them
HANDLED_ELSEWHERE = {
    "like": "C04/C05", "allclose": "C12", "sum": "C17", "lib": "infrastructure",
    "azimuthal": "C04/C15 (stored slots)", "longitudinal": "C04/C15", "temporal": "C04/C15",
    "boost": "catalogued as boost(p4)/boost(beta3)", "boostCM_of": "catalogued as boostCM_of(p4)/(beta3)",
    "boostX": "catalogued as boostX_beta/gamma", "boostY": "catalogued as boostY_beta/gamma",
    "boostZ": "catalogued as boostZ_beta/gamma",
    "from_xy": "C06", "from_rhophi": "C06", "from_xyz": "C06", "from_xytheta": "C06", "from_xyeta": "C06",
    "from_rhophiz": "C06", "from_rhophitheta": "C06", "from_rhophieta": "C06",
    "from_xyzt": "C06", "from_xyztau": "C06", "from_xythetat": "C06", "from_xythetatau": "C06",
    "from_xyetat": "C06", "from_xyetatau": "C06", "from_rhophizt": "C06", "from_rhophiztau": "C06",
    "from_rhophithetat": "C06", "from_rhophithetatau": "C06", "from_rhophietat": "C06", "from_rhophietatau": "C06",
    "ProjectionClass2D": "C05", "ProjectionClass3D": "C05", "ProjectionClass4D": "C05",
    "GenericClass": "C05", "MomentumClass": "C05", "ObjectClass": "C19",
}


def completeness_guard():
    """Every public name of the six object classes must be catalogued or
    explicitly assigned elsewhere; every compute module must be reachable from a
    catalogued operation.  Returns a list of problems (empty = complete)."""
    import vector

    problems = []
    known = set(OPS) | set(HANDLED_ELSEWHERE)
    for cls in (vector.VectorObject2D, vector.VectorObject3D, vector.VectorObject4D,
                vector.MomentumObject2D, vector.MomentumObject3D, vector.MomentumObject4D):
        for n in dir(cls):
            if n.startswith("_"):
                continue
            if n not in known:
                problems.append(f"uncatalogued public name {cls.__name__}.{n}")
    return sorted(set(problems))


def ops_for(dim, momentum, groups=None):
    out = []
    for op in OPS.values():
        if dim not in op.dims:
            continue
        if op.momentum_only and not momentum:
            continue
        if groups and op.group not in groups:
            continue
        out.append(op)
    return out
