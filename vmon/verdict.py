"""Three-valued verdicts, evidence writer, replay files, known-findings matching
(DESIGN §1.3, §1.4)."""
from __future__ import annotations

import json
import os
import time

VERIF = os.path.dirname(os.path.dirname(os.path.abspath(__file__)))
MAX_SAMPLES = 12
MAX_SAMPLES_KEPT = 240  # collected across shards; the evidence shows the MAX_SAMPLES most diverse of them
MAX_VIOLATIONS_KEPT = 40


class Result:
    """Accumulates what one shard observed.  JSON round-trippable."""

    def __init__(self):
        self.evaluations = 0
        self.cells = set()        # distinct non-trivial cells, strings
        self.samples = []
        self.violations = []      # dicts with at least: mechanism, detail
        self.counters = {}
        self.maxerr = {}
        self.inconclusive = []
        self.sets = {}            # named sets of strings (merged by union), e.g. variants seen

    # -- recording
    def count(self, name, n=1):
        self.counters[name] = self.counters.get(name, 0) + n

    def cell(self, *parts):
        self.cells.add("|".join(str(p) for p in parts))

    def add_to(self, setname, item):
        self.sets.setdefault(setname, set()).add(item)

    def sample(self, s):
        if len(self.samples) < MAX_SAMPLES_KEPT:
            self.samples.append(s)

    def err(self, name, value):
        v = float(value)
        if v != v:
            v = float("inf")
        if v > self.maxerr.get(name, 0.0):
            self.maxerr[name] = v

    def violation(self, mechanism, detail, **extra):
        self.count("violations_raw")
        key = mechanism
        n_same = sum(1 for v in self.violations if v["mechanism"] == key)
        if n_same < 5 and len(self.violations) < MAX_VIOLATIONS_KEPT:
            self.violations.append({"mechanism": mechanism, "detail": detail, **extra})
        self.counters["viol:" + mechanism] = self.counters.get("viol:" + mechanism, 0) + 1

    def inconc(self, reason):
        if reason not in self.inconclusive:
            self.inconclusive.append(reason)

    # -- (de)serialisation / merge
    def to_json(self):
        return {
            "evaluations": self.evaluations, "cells": sorted(self.cells), "samples": self.samples,
            "violations": self.violations, "counters": self.counters, "maxerr": self.maxerr,
            "inconclusive": self.inconclusive, "sets": {k: sorted(v) for k, v in self.sets.items()},
        }

    @classmethod
    def from_json(cls, d):
        r = cls()
        r.evaluations = d["evaluations"]
        r.cells = set(d["cells"])
        r.samples = d["samples"]
        r.violations = d["violations"]
        r.counters = d["counters"]
        r.maxerr = d["maxerr"]
        r.inconclusive = d["inconclusive"]
        r.sets = {k: set(v) for k, v in d.get("sets", {}).items()}
        return r

    def merge(self, other):
        self.evaluations += other.evaluations
        self.cells |= other.cells
        for s in other.samples:
            self.sample(s)
        for v in other.violations:
            n_same = sum(1 for w in self.violations if w["mechanism"] == v["mechanism"])
            if n_same < 5 and len(self.violations) < MAX_VIOLATIONS_KEPT:
                self.violations.append(v)
        for k, v in other.counters.items():
            self.counters[k] = self.counters.get(k, 0) + v
        for k, v in other.maxerr.items():
            if v > self.maxerr.get(k, 0.0):
                self.maxerr[k] = v
        for r in other.inconclusive:
            self.inconc(r)
        for k, v in other.sets.items():
            self.sets.setdefault(k, set()).update(v)


def _kind(s):
    if not isinstance(s, dict):
        return repr(type(s))
    return tuple(str(s.get(k))[:40] for k in ("part", "backend", "mode", "variant", "config", "op", "probe_source", "system", "records", "sympy", "arrays") if k in s)


def _diverse(samples, n):
    """pick n samples preferring distinct kinds (part / backend / variant / operation ...)"""
    out, seen, rest = [], set(), []
    for s in samples:
        k = _kind(s)
        if k not in seen:
            seen.add(k)
            out.append(s)
        else:
            rest.append(s)
    # spread over the distinct kinds evenly, then fill up
    if len(out) > n:
        step = len(out) / n
        out = [out[int(i * step)] for i in range(n)]
    return (out + rest)[:n]


def load_known():
    path = os.path.join(VERIF, "known_findings.json")
    if not os.path.exists(path):
        return []
    with open(path) as f:
        return json.load(f).get("findings", [])


def finish(prop, tier, seed, level, res, rule, assumptions, wall, extra_cov=None, explanation=None):
    """Write evidence, print the verdict lines, return the exit code."""
    known = [k for k in load_known() if k.get("property") == prop and k.get("status") == "open"]
    known_mech = {k["mechanism"]: k for k in known}
    mech_counts = {k[5:]: v for k, v in res.counters.items() if k.startswith("viol:")}
    unknown = [m for m in mech_counts if m not in known_mech]
    matched = [m for m in mech_counts if m in known_mech]

    cov = {
        "evaluations": int(res.evaluations),
        "distinct_nontrivial": len(res.cells),
        "rule": rule,
        "samples": _diverse(res.samples, MAX_SAMPLES) or [{"note": "no sample recorded"}],
        "exhaustive": False,
        "counters": {k: v for k, v in sorted(res.counters.items())},
        "max_observed_error": res.maxerr,
        "known_findings_matched": {m: mech_counts[m] for m in matched},
        "inconclusive_reasons": res.inconclusive,
    }
    for k, v in res.sets.items():
        cov["n_" + k] = len(v)
    if extra_cov:
        cov.update(extra_cov)
    if explanation:
        cov["explanation"] = explanation
    from . import bind

    cov["tree"] = bind.tree_identity()
    ev = {
        "property_id": prop, "tier": tier, "seed": int(seed), "level": level, "coverage": cov,
        "assumptions": assumptions, "wall_s": round(wall, 2),
        "violations": int(sum(mech_counts[m] for m in unknown)),
    }
    outroot = os.environ.get("VERIF_OUT", VERIF)  # the mutation self-test points this elsewhere
    os.makedirs(os.path.join(outroot, "evidence"), exist_ok=True)
    evpath = os.path.join(outroot, "evidence", f"{prop}.json")
    tmp = evpath + ".tmp"
    with open(tmp, "w") as f:
        json.dump(ev, f, indent=1, default=str)
    os.replace(tmp, evpath)
    try:
        _validate(ev)
    except Exception as e:  # an evidence file that does not validate is 'no evidence': say so, do not crash
        res.inconc("evidence does not validate: " + str(e).splitlines()[0][:200])

    for m in matched:
        print(f"KNOWN-FINDING: property={prop} {m} ({mech_counts[m]} observations) — {known_mech[m].get('what', '')}")

    if unknown:
        os.makedirs(os.path.join(outroot, "replays"), exist_ok=True)
        path = os.path.join(outroot, "replays", f"{prop}-{tier}-{seed}.json")
        with open(path, "w") as f:
            json.dump({"property": prop, "tier": tier, "seed": seed,
                       "mechanisms": {m: mech_counts[m] for m in unknown},
                       "violations": [v for v in res.violations if v["mechanism"] in unknown]},
                      f, indent=1, default=str)
        for m in unknown[:10]:
            w = next((v for v in res.violations if v["mechanism"] == m), None)
            print(f"  witness[{m}] x{mech_counts[m]}: {json.dumps(w.get('detail') if w else None, default=str)[:600]}")
        print(f"VIOLATION property={prop} replay={path}")
        return 1
    if res.inconclusive:
        for r in res.inconclusive[:10]:
            print(f"INCONCLUSIVE property={prop} reason={r}")
        return 2
    print(f"HELD property={prop} tier={tier} seed={seed} evaluations={res.evaluations} "
          f"distinct_nontrivial={len(res.cells)} wall={wall:.1f}s")
    return 0


def _validate(ev):
    try:
        import jsonschema
    except Exception:
        return
    schema_path = "/root/.vp/EVIDENCE.schema.json"
    local = os.path.join(VERIF, "vmon", "EVIDENCE.schema.json")
    p = local if os.path.exists(local) else schema_path
    if not os.path.exists(p):
        return
    with open(p) as f:
        schema = json.load(f)
    jsonschema.validate(ev, schema)
