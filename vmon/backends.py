"""Build the same logical vector(s) as Mp / object / NumPy / Awkward / record
vectors and read stored coordinates back without using the library's own
accessors (DESIGN §2.6)."""
from __future__ import annotations

import struct

import numpy
from mpmath import mpf

from . import refmodel as R
from .mplib import Q, mp_classes

MOM_SPELL = {"x": ("px",), "y": ("py",), "rho": ("pt",), "z": ("pz",),
             "t": ("E", "e", "energy"), "tau": ("M", "m", "mass"),
             "phi": (), "theta": (), "eta": ()}
GENERIC_OF = {s: g for g, ss in MOM_SPELL.items() for s in ss}
ALL_NAMES = ["x", "px", "y", "py", "rho", "pt", "phi", "z", "pz", "theta", "eta",
             "t", "E", "e", "energy", "tau", "M", "m", "mass"]


def _vo():
    from vector.backends import object as vo

    return vo


def _coord_objs(system, coords):
    vo = _vo()
    az = (vo.AzimuthalObjectXY if system[0] == "xy" else vo.AzimuthalObjectRhoPhi)(coords[0], coords[1])
    out = {"azimuthal": az}
    if len(system) >= 2:
        cls = {"z": vo.LongitudinalObjectZ, "theta": vo.LongitudinalObjectTheta, "eta": vo.LongitudinalObjectEta}[system[1]]
        out["longitudinal"] = cls(coords[2])
    if len(system) == 3:
        cls = {"t": vo.TemporalObjectT, "tau": vo.TemporalObjectTau}[system[2]]
        out["temporal"] = cls(coords[3])
    return out


def mk_mp(system, coords, momentum=False):
    cls = mp_classes()[(len(system) + 1, bool(momentum))]
    return cls(**_coord_objs(system, [c if type(c) is Q else Q(c) for c in coords]))


def obj_class(dim, momentum):
    vo = _vo()
    return {(2, False): vo.VectorObject2D, (3, False): vo.VectorObject3D, (4, False): vo.VectorObject4D,
            (2, True): vo.MomentumObject2D, (3, True): vo.MomentumObject3D, (4, True): vo.MomentumObject4D}[(dim, bool(momentum))]


def mk_obj(system, coords, momentum=False):
    """float64 object vector holding exactly the given python floats"""
    return obj_class(len(system) + 1, momentum)(**_coord_objs(system, [float(c) for c in coords]))


def names_for(system, momentum=False, spelling=0):
    """field names; momentum=True substitutes momentum spellings where they exist"""
    out = []
    for n in R.field_names(system):
        if momentum and MOM_SPELL[n]:
            sp = MOM_SPELL[n]
            out.append(sp[spelling % len(sp)])
        else:
            out.append(n)
    return out


def mk_numpy(system, rows, momentum=False, shape=None, dtype=numpy.float64, spelling=0):
    """rows: list of coordinate tuples (floats). Returns a VectorNumpy/MomentumNumpy array."""
    import vector

    names = names_for(system, momentum, spelling)
    if momentum and not any(n in GENERIC_OF for n in names):
        # systems without any momentum-spellable coordinate cannot be made momentum by name
        raise ValueError("no momentum spelling")
    arr = numpy.array([tuple(float(c) for c in row) for row in rows], dtype=[(n, dtype) for n in names])
    if shape is not None:
        arr = arr.reshape(shape)
    return vector.array(arr)


def mk_numpy_cls(system, rows, momentum=False, shape=None, dtype=numpy.float64):
    """Build through .view(cls) so that flavor does not depend on spellings."""
    import vector

    dim = len(system) + 1
    names = R.field_names(system)
    conv = float if numpy.dtype(dtype).kind == "f" else int
    arr = numpy.array([tuple(conv(c) for c in row) for row in rows], dtype=[(n, dtype) for n in names])
    if shape is not None:
        arr = arr.reshape(shape)
    cls = getattr(vector, ("MomentumNumpy" if momentum else "VectorNumpy") + f"{dim}D")
    return arr.view(cls)


def mk_awk(system, rows, momentum=False, counts=None, spelling=0, extra=None, route="zip"):
    """Awkward vector array; `counts` gives a jagged structure (list of list lengths)."""
    import awkward as ak

    import vector

    names = names_for(system, momentum, spelling)
    cols = {n: numpy.array([float(row[i]) for row in rows], dtype=numpy.float64) for i, n in enumerate(names)}
    if extra:
        cols.update(extra)
    if counts is not None:
        cols = {k: ak.unflatten(v, counts) for k, v in cols.items()}
    if route == "zip":
        return vector.zip(cols)
    if route == "Array":
        return vector.Array(ak.zip(cols))
    if route == "with_name":
        dim = len(system) + 1
        flavor = "Momentum" if momentum else "Vector"
        import vector.backends.awkward as vba

        return ak.zip(cols, with_name=f"{flavor}{dim}D", behavior=None if vector._awkward_registered else vba.behavior)
    raise ValueError(route)


# ---------------------------------------------------------------------------
# reading stored coordinates (no library accessors)

def obj_system(v):
    from vector._methods import (AzimuthalXY, LongitudinalEta, LongitudinalTheta, LongitudinalZ, TemporalT)

    s = ["xy" if isinstance(v.azimuthal, AzimuthalXY) else "rhophi"]
    if hasattr(v, "longitudinal"):
        lo = v.longitudinal
        s.append("z" if isinstance(lo, LongitudinalZ) else ("theta" if isinstance(lo, LongitudinalTheta) else "eta"))
    if hasattr(v, "temporal"):
        s.append("t" if isinstance(v.temporal, TemporalT) else "tau")
    return tuple(s)


def obj_stored(v):
    """(system, tuple-of-stored-values) of an object vector, via tuple indexing only."""
    system = obj_system(v)
    vals = [tuple.__getitem__(v.azimuthal, 0), tuple.__getitem__(v.azimuthal, 1)]
    if len(system) >= 2:
        vals.append(tuple.__getitem__(v.longitudinal, 0))
    if len(system) == 3:
        vals.append(tuple.__getitem__(v.temporal, 0))
    return system, tuple(vals)


def fields_system(names):
    """Coordinate system denoted by a set of *generic* field names, or None."""
    names = set(names)
    if {"x", "y"} <= names:
        s = ["xy"]
    elif {"rho", "phi"} <= names:
        s = ["rhophi"]
    else:
        return None
    lon = [n for n in ("z", "theta", "eta") if n in names]
    if lon:
        s.append(lon[0])
        tmp = [n for n in ("t", "tau") if n in names]
        if tmp:
            s.append(tmp[0])
    return tuple(s)


def numpy_stored(arr):
    """(system, structured ndarray view) of a VectorNumpy array."""
    base = numpy.asarray(arr).view(numpy.ndarray)
    system = fields_system(base.dtype.names)
    return system, base


def numpy_rows(arr):
    system, base = numpy_stored(arr)
    flat = base.reshape(-1)
    names = R.field_names(system)
    return system, [tuple(float(flat[n][i]) for n in names) for i in range(flat.shape[0])]


def awk_stored_system(arr):
    import awkward as ak

    names = [GENERIC_OF.get(n, n) for n in ak.fields(arr)]
    return fields_system(names)


def awk_rows(arr):
    """(system, flat list of coordinate tuples, None-mask) for an awkward vector array/record."""
    import awkward as ak

    fields = ak.fields(arr)
    gen = {GENERIC_OF.get(n, n): n for n in fields}
    system = fields_system(gen.keys())
    names = R.field_names(system)
    if isinstance(arr, ak.Record):
        return system, [tuple(float(arr[gen[n]]) for n in names)]
    cols = []
    for n in names:
        c = arr[gen[n]]
        c = ak.flatten(c, axis=None) if c.ndim > 1 else c
        cols.append(ak.to_list(c))
    rows = [tuple(c[i] for c in cols) for i in range(len(cols[0]))]
    return system, rows


def _mpf_of(c):
    if type(c) is Q:
        return mpf(c.v)
    if isinstance(c, (bool, numpy.bool_)):
        raise TypeError("boolean coordinate")
    if isinstance(c, (int, numpy.integer)):
        return mpf(int(c))
    if isinstance(c, numpy.floating):
        return mpf(float(c))
    return mpf(c)


def to_rv(system, coords):
    return R.from_coords(system, [_mpf_of(c) for c in coords])


def bits(x):
    """IEEE-754 bit pattern of a python float / numpy float64; ints and others by repr+type"""
    if isinstance(x, float):
        return ("f8", struct.pack("<d", x))
    if isinstance(x, numpy.floating):
        return (x.dtype.str, x.tobytes())
    if type(x) is Q:
        return ("Q", str(x.v))
    return (type(x).__name__, repr(x))


# ---------------------------------------------------------------------------
# backend-independent readout of stored coordinates (columns)

def stored_columns(v):
    """(backend, system, [column as list of python values], is_momentum, n) for any vector"""
    import awkward as ak
    from vector._methods import Momentum
    from vector.backends.numpy import VectorNumpy
    from vector.backends.object import VectorObject

    mom = isinstance(v, Momentum)
    if isinstance(v, VectorObject):
        system, stored = obj_stored(v)
        return "object", system, [[x] for x in stored], mom, 1
    if isinstance(v, VectorNumpy):
        system, base = numpy_stored(v)
        flat = base.reshape(-1)
        cols = [[x for x in flat[n]] for n in R.field_names(system)]
        return "numpy", system, cols, mom, flat.shape[0]
    if isinstance(v, (ak.Array, ak.Record)):
        fields = ak.fields(v)
        gen = {}
        for n in fields:
            if n in ("x", "y", "rho", "phi", "z", "theta", "eta", "t", "tau"):
                gen[n] = n
        for n in fields:
            g = GENERIC_OF.get(n)
            if g is not None and g not in gen:
                gen[g] = n
        system = fields_system(gen.keys())
        cols = []
        for n in R.field_names(system):
            c = v[gen[n]]
            if isinstance(v, ak.Record):
                cols.append([c])
            else:
                cols.append(ak.to_list(ak.flatten(c, axis=None)) if c.ndim > 1 else ak.to_list(c))
        return "awkward", system, cols, mom, len(cols[0])
    raise TypeError(type(v))


def same_bits(a, b):
    """bit-for-bit equality of two stored values (float64 patterns; ints/Q by value and type family)"""
    if type(a) is Q or type(b) is Q:
        return type(a) is Q and type(b) is Q and a.v == b.v
    if isinstance(a, (float, numpy.floating)) and isinstance(b, (float, numpy.floating)):
        return struct.pack("<d", float(a)) == struct.pack("<d", float(b)) and numpy.dtype(type(a) if isinstance(a, numpy.floating) else float).itemsize == numpy.dtype(type(b) if isinstance(b, numpy.floating) else float).itemsize
    if isinstance(a, (int, numpy.integer)) and isinstance(b, (int, numpy.integer)):
        return int(a) == int(b)
    return False
