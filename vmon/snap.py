"""Bit-exact snapshots of operands and of process-wide state (DESIGN §2.7)."""
from __future__ import annotations

import hashlib
import json
import warnings

import numpy

from . import backends as B
from .mplib import Q


def _h(b):
    return hashlib.sha1(b).hexdigest()


def _root(arr):
    a = arr
    while isinstance(getattr(a, "base", None), numpy.ndarray):
        a = a.base
    return a


def snap_numpy(arr):
    a = numpy.asarray(arr).view(numpy.ndarray) if isinstance(arr, numpy.ndarray) else numpy.asarray(arr)
    root = _root(arr) if isinstance(arr, numpy.ndarray) else a
    rootv = root.view(numpy.ndarray) if isinstance(root, numpy.ndarray) else root
    try:
        rootbytes = _h(rootv.tobytes())
    except Exception:
        rootbytes = "?"
    return {
        "kind": "numpy", "class": type(arr).__name__, "descr": repr(a.dtype.descr if a.dtype.names else a.dtype.str),
        "names": repr(a.dtype.names), "root_names": repr(getattr(rootv.dtype, "names", None)),
        "shape": tuple(a.shape), "strides": tuple(a.strides), "bytes": _h(a.tobytes()), "root_bytes": rootbytes,
        "writeable": bool(a.flags.writeable),
        "attrs": repr(sorted((k, getattr(v, "__name__", repr(v))) for k, v in getattr(arr, "__dict__", {}).items())),
    }


def snap_awkward(arr):
    import awkward as ak

    if isinstance(arr, ak.Record):
        form, length, container = ak.to_buffers(arr.layout.array)
        at = arr.layout.at
    else:
        form, length, container = ak.to_buffers(arr)
        at = None
    bufs = {k: _h(numpy.asarray(v).tobytes()) for k, v in sorted(container.items())}
    beh = arr.behavior
    return {
        "kind": "awkward", "class": type(arr).__name__, "form": form.to_json() if hasattr(form, "to_json") else str(form),
        "length": length, "at": at, "buffers": bufs, "behavior_id": id(beh), "behavior_len": None if beh is None else len(beh),
        "behavior_keys": None if beh is None else _h(repr(sorted((repr(k), id(v)) for k, v in beh.items())).encode()),
        "fields": list(ak.fields(arr)), "type": str(arr.type),
    }


def snap_object(v):
    system, stored = B.obj_stored(v)
    slots = []
    for part in ("azimuthal", "longitudinal", "temporal"):
        if hasattr(v, part):
            slots.append(id(getattr(v, part)))
    return {"kind": "object", "class": type(v).__name__, "system": system,
            "values": [B.bits(x) for x in stored], "value_ids": [id(x) for x in stored], "slot_ids": slots}


def snap(x):
    """snapshot of any operand (vector of any backend, scalar argument, matrix dict, list)"""
    import awkward as ak

    try:
        from vector.backends.object import VectorObject
    except Exception:  # pragma: no cover
        VectorObject = ()
    if isinstance(x, VectorObject):
        return snap_object(x)
    if isinstance(x, (ak.Array, ak.Record)):
        return snap_awkward(x)
    if isinstance(x, numpy.ndarray):
        return snap_numpy(x)
    if isinstance(x, dict):
        return {"kind": "dict", "items": {k: snap(v) for k, v in x.items()}}
    if isinstance(x, (list, tuple)):
        return {"kind": "seq", "items": [snap(v) for v in x]}
    if type(x) is Q:
        return {"kind": "Q", "v": str(x.v)}
    return {"kind": "scalar", "v": B.bits(x) if isinstance(x, (float, numpy.floating)) else repr(x)}


def diff(a, b, path=""):
    """first difference between two snapshots (None if equal)"""
    if type(a) is not type(b):
        return f"{path}: {type(a).__name__} -> {type(b).__name__}"
    if isinstance(a, dict):
        for k in a:
            if k not in b:
                return f"{path}.{k}: missing afterwards"
            d = diff(a[k], b[k], f"{path}.{k}")
            if d:
                return d
        for k in b:
            if k not in a:
                return f"{path}.{k}: new afterwards"
        return None
    if isinstance(a, (list, tuple)):
        if len(a) != len(b):
            return f"{path}: length {len(a)} -> {len(b)}"
        for i, (x, y) in enumerate(zip(a, b)):
            d = diff(x, y, f"{path}[{i}]")
            if d:
                return d
        return None
    if a != b:
        return f"{path}: {str(a)[:80]} -> {str(b)[:80]}"
    return None


# ---------------------------------------------------------------------------
# process-wide state (C20)

def _fp(obj, depth=0):
    """deep, identity-insensitive fingerprint of registries (dicts of classes/functions/...)"""
    if isinstance(obj, dict):
        return {repr(k) if not isinstance(k, str) else k: _fp(v, depth + 1) for k, v in obj.items()}
    if isinstance(obj, (list, tuple)):
        return [_fp(v, depth + 1) for v in obj]
    if callable(obj):
        return f"{getattr(obj, '__module__', '?')}.{getattr(obj, '__qualname__', repr(type(obj)))}@{id(obj)}"
    return repr(obj)


def process_state():
    """everything the property names, as comparable python data"""
    import awkward

    import vector

    st = {
        "numpy.geterr": dict(numpy.geterr()),
        "numpy.geterrcall": repr(numpy.geterrcall()),
        "numpy.printoptions": {k: repr(v) for k, v in numpy.get_printoptions().items()},
        "warnings.filters": [repr(f) for f in warnings.filters],
        "warnings.showwarning": repr(warnings.showwarning),
        "awkward.behavior": _fp(awkward.behavior),
        "vector._awkward_registered": vector._awkward_registered,
    }
    try:
        import vector.backends.awkward as vba

        st["vector.backends.awkward.behavior"] = _fp(vba.behavior)
    except Exception:  # pragma: no cover
        pass
    return st


def registries_state():
    """dispatch maps and class cross-references: nothing but (re)import may change them"""
    from . import tap

    import vector
    import vector.backends.numpy as vn
    import vector.backends.object as vo

    st = {}
    for name, m in tap.compute_modules().items():
        st["dispatch_map:" + name] = sorted((repr(k), getattr(v[0], "__qualname__", repr(v[0])) + f"@{id(v[0])}", repr(v[1:])) for k, v in m.dispatch_map.items())
    for mod in (vo, vn):
        for cname in dir(mod):
            c = getattr(mod, cname)
            if isinstance(c, type) and cname.startswith(("Vector", "Momentum")):
                st["xref:" + cname] = {a: getattr(getattr(c, a, None), "__name__", None) for a in
                                       ("ProjectionClass2D", "ProjectionClass3D", "ProjectionClass4D", "GenericClass", "MomentumClass", "ObjectClass")}
    return st


def state_json(st):
    return json.dumps(st, sort_keys=True, default=str)
