"""C07 — numba-compiled code behaves like the interpreter.

Differential monitor: generated probe programs (Python source, samples kept in
the evidence) are executed interpreted (`f.py_func`) and compiled
(`numba.njit`) on the same arguments for every coordinate system and flavor
of their arguments.  The numba-supported API is *observed* by wrapping
numba.extending.overload_method / overload_attribute / overload before the
repository's numba backend is imported (DESIGN §3 C07).
"""
from __future__ import annotations

import itertools
import os
import shutil
import sys
import tempfile
import time

from mpmath import mpf

from .. import gen
from .. import refmodel as R
from ..verdict import Result

NO_BIND = True  # the shard binds itself after patching numba.extending
LEVEL = "exploration"
RULE = ("probe programs over the observed numba inventory: (a) one multi-return probe of every registered attribute, (b) every "
        "registered unary method with scalar arguments (12 Euler orders as literals, beta/gamma keywords, typed-dict matrices), "
        "(c) every registered binary method in multi-return probes, (d) chains of two or three calls, (e) construction inside "
        "compiled code (vector.obj, class constructors), (f) operators and NumPy functions, (g) loops over Awkward arrays; each "
        "compiled for every coordinate system x flavor of self (all 20 x 2) and sampled (quick) / all (thorough) systems of the "
        "other operand and flavor pairs; a cell is (probe, specialization), non-trivial when interpreter and compiled result were compared")
ASSUMPTIONS = [
    "the interpreter (py_func) is the reference; programs it rejects are recorded, not judged",
    "values compared at 1e-9 of the natural scale (compiled code may contract FMAs); class, flavor, dimension and coordinate system exactly",
    "supplementary, non-deciding: faulthandler is enabled in every shard; a crashed shard is reported as inconclusive",
]
SHARD_TIMEOUT = {"quick": 1500, "thorough": 14000}
TOL = 1e-9


def plan(tier, seed):
    specs = []
    for s in R.ALL_SYSTEMS:
        for m in (False, True):
            specs.append({"part": "unary", "system": list(s), "mom": m})
    for d in (2, 3, 4):
        for s in R.SYSTEMS[d]:
            specs.append({"part": "binary", "system": list(s)})
    for d in (2, 3, 4):
        specs.append({"part": "construct", "dim": d})
    for s in R.ALL_SYSTEMS:
        specs.append({"part": "awkward", "system": list(s)})
    # heavy specialisations first so that the pool finishes evenly
    order = {"binary": 0, "awkward": 1, "unary": 2, "construct": 3}
    specs.sort(key=lambda sp: (order[sp["part"]], -len(sp.get("system", []))))
    return specs


# ---------------------------------------------------------------------------

def setup_numba():
    """patch numba.extending, then import the repository and its numba backend; returns the inventory"""
    cache = tempfile.mkdtemp(prefix="vmon-numba-")
    os.environ["NUMBA_CACHE_DIR"] = cache
    import numba
    import numba.extending

    inv = []
    for fn in ("overload_method", "overload_attribute", "overload"):
        orig = getattr(numba.extending, fn)

        def mk(orig, fn):
            def w(*a, **k):
                inv.append((fn, a))
                return orig(*a, **k)
            return w
        setattr(numba.extending, fn, mk(orig, fn))
    from .. import bind

    bind.bind()
    import vector

    if "vector.backends._numba_object" in sys.modules:
        raise RuntimeError("numba backend imported before the inventory wrapper")
    vector.register_numba()
    methods, attrs, funcs = {}, {}, set()
    for fn, a in inv:
        if fn == "overload":
            funcs.add(getattr(a[0], "__name__", repr(a[0])))
        else:
            tname = a[0].__name__
            (methods if fn == "overload_method" else attrs).setdefault(tname, set()).add(a[1])
    return cache, methods, attrs, funcs


def supported(table, dim, mom, name):
    """is `name` registered for (dim, flavor)?  momentum types inherit the generic registrations"""
    if name in table.get(f"VectorObject{dim}DType", ()):
        return True
    return mom and name in table.get(f"MomentumObject{dim}DType", ())


def canon(x):
    """comparable form of a probe result"""
    import numpy
    from vector.backends.object import VectorObject

    from .. import backends as B

    if isinstance(x, tuple):
        return tuple(canon(e) for e in x)
    if isinstance(x, VectorObject):
        s, st = B.obj_stored(x)
        return ("vec", type(x).__name__, s, tuple(float(v) for v in st))
    import awkward as ak

    if isinstance(x, ak.Record) and hasattr(x, "azimuthal"):
        # interpreted, an element of an Awkward vector array is a vector record; compiled code hands out the
        # equivalent vector object (documented in the repository's own numba tests): same flavor/dimension/system/values
        _, s, cols, mom, _ = B.stored_columns(x)
        return ("vec", ("MomentumObject" if mom else "VectorObject") + f"{len(s) + 1}D", s, tuple(float(c[0]) for c in cols))
    if isinstance(x, (bool, numpy.bool_)):
        return ("bool", bool(x))
    if isinstance(x, (int, float, numpy.floating, numpy.integer)):
        return ("num", float(x))
    return ("other", repr(x))


def compare(a, b, scale):
    """-> None if equal within tolerance else a short reason"""
    import math

    if type(a) is not type(b) or (isinstance(a, tuple) and a and a[0] in ("vec", "bool", "num", "other") and a[0] != b[0]):
        return f"kinds differ: {a!r:.80} vs {b!r:.80}"
    if isinstance(a, tuple) and a and a[0] == "vec":
        if a[1] != b[1]:
            return f"class {b[1]} (compiled) != {a[1]} (interpreted)"
        if a[2] != b[2]:
            return f"coordinate system {b[2]} (compiled) != {a[2]} (interpreted)"
        for x, y in zip(a[3], b[3]):
            r = _numdiff(x, y, scale)
            if r:
                return r
        return None
    if isinstance(a, tuple) and a and a[0] == "num":
        return _numdiff(a[1], b[1], scale)
    if isinstance(a, tuple) and a and a[0] in ("bool", "other"):
        return None if a == b else f"{b!r} (compiled) != {a!r} (interpreted)"
    if isinstance(a, tuple):
        if len(a) != len(b):
            return "tuple lengths differ"
        for i, (x, y) in enumerate(zip(a, b)):
            r = compare(x, y, scale)
            if r:
                return f"[{i}] {r}"
        return None
    return None if a == b else "differ"


def _numdiff(x, y, scale):
    import math

    if math.isnan(x) and math.isnan(y):
        return None
    if math.isinf(x) or math.isinf(y):
        return None if x == y else f"{y} (compiled) != {x} (interpreted)"
    if abs(x - y) <= TOL * max(scale, abs(x), abs(y), 1e-300):
        return None
    return f"value {y!r} (compiled) != {x!r} (interpreted)"


class Prober:
    def __init__(self, res):
        import numba

        self.res = res
        self.numba = numba
        self.cache = {}
        self.sources = []

    def fn(self, src, name="probe"):
        """compile (once per source text) a probe given as python source"""
        f = self.cache.get(src)
        if f is None:
            ns = {}
            import numpy
            import vector

            ns.update({"vector": vector, "numpy": numpy})
            exec(src, ns)  # noqa: S102 - generated probe program
            f = self.numba.njit(ns[name])
            self.cache[src] = f
            if len(self.sources) < 6:
                self.sources.append(src)
        return f

    def run(self, label, cell, src, args, scale=1.0, unpack=None, knife_edge=()):
        """interpret and compile-run one probe; returns nothing, records in res.
        knife_edge: members whose exact answer sits on a rounding knife edge for these operands (== of the same vector
        written in two coordinate systems) -- counted, not judged.  Azimuthal differences are compared modulo 2 pi
        (-pi and +pi are the same direction)."""
        res = self.res
        f = self.fn(src)
        res.evaluations += 1
        try:
            want = canon(f.py_func(*args))
        except Exception as e:
            res.count("interpreter_rejects:" + type(e).__name__)
            # observation only (the statement speaks of programs that return): what does compiled code do here?
            try:
                f(*args)
                res.count(f"observed_not_judged:interpreter_raises_{type(e).__name__}_compiled_returns probe={label}")
            except Exception:
                res.count("observed_not_judged:interpreter_raises_and_compiled_code_fails_too")
            return "interp"
        try:
            got = canon(f(*args))
        except self.numba.core.errors.TypingError as e:
            msg = str(e)
            res.violation(f"C07/registered-name-does-not-compile probe={label}",
                          {"cell": cell, "error": msg[:100] + " ... " + msg[-500:], "source": src})
            return "typing"
        except Exception as e:
            res.violation(f"C07/compiled-code-raises probe={label}", {"cell": cell, "error": f"{type(e).__name__}: {e}"[:500], "source": src})
            return "raise"
        # every member of a multi-return probe is judged on its own, so that one (known) difference cannot mask another
        if unpack and isinstance(want, tuple) and isinstance(got, tuple) and len(want) == len(got) == len(unpack):
            members = list(zip(unpack, want, got))
        else:
            members = [(None, want, got)]
        bad = False
        for name, w_, g_ in members:
            if name in knife_edge:
                res.count("member_on_rounding_knife_edge_not_judged")
                continue
            why = compare(w_, g_, scale)
            if why and name in ("deltaphi", "phi") and isinstance(w_, tuple) and w_[0] == "num" and isinstance(g_, tuple) and g_[0] == "num":
                import math
                d = abs(w_[1] - g_[1]) % (2 * math.pi)
                if min(d, 2 * math.pi - d) <= 1e-9:
                    why = None
            if not why:
                continue
            bad = True
            if self._mixed_flavor_known(why, args):
                res.violation("C07/compiled-result-is-momentum-only-if-both-operands-are",
                              {"cell": cell, "probe": label, "member": name, "why": why})
                continue
            res.violation(f"C07/compiled-result-differs probe={label}" + (f" member={name}" if name else ""),
                          {"cell": cell, "why": why, "source": src, "args": [repr(a)[:120] for a in args]})
        if bad:
            return "differs"
        res.cell(label, cell)
        return "ok"

    @staticmethod
    def _mixed_flavor_known(why, args):
        """known finding: compiled binary operations give a momentum result only if *both* vector operands are
        momentum vectors (interpreter: if any) — exactly: class differs only in flavor, compiled side generic,
        and the call has one momentum and one generic vector argument"""
        from vector._methods import Momentum, Vector

        if "class VectorObject" not in why or "!= MomentumObject" not in why:
            return False
        vs = [a for a in args if isinstance(a, Vector)]
        return len(vs) == 2 and isinstance(vs[0], Momentum) != isinstance(vs[1], Momentum)


def _member(why, names):
    if why.startswith("["):
        try:
            return names[int(why[1:why.index("]")])]
        except Exception:
            return "?"
    return "?"


def _vec(r, system, mom, core=True, causal="timelike", forward=True):
    from .. import backends as B
    from ..engine import LVec

    dim = len(system) + 1
    while True:
        rv, _ = gen.vec4(r, core=True, causal=causal, forward=forward) if dim == 4 else gen.vec(r, dim, core=True)
        try:
            l = LVec(rv, system, mom)
            return B.mk_obj(system, l.f64()[0], mom), float(max(abs(c) for c in rv.comps()))
        except R.NotRepresentable:
            continue


ATTR_ORDER = ["x", "y", "rho", "rho2", "phi", "z", "theta", "eta", "costheta", "cottheta", "mag", "mag2", "t", "t2", "tau", "tau2", "beta",
              "gamma", "rapidity", "neg2D", "neg3D", "neg4D", "px", "py", "pt", "pt2", "pz", "p", "p2", "pseudorapidity", "E", "energy", "E2",
              "energy2", "M", "mass", "M2", "mass2", "Et", "transverse_energy", "Et2", "transverse_energy2", "Mt", "transverse_mass", "Mt2",
              "transverse_mass2"]


def run_unary(spec, tier, seed, res, P, methods, attrs, funcs):
    import numba

    system = tuple(spec["system"])
    mom = spec["mom"]
    dim = len(system) + 1
    r = gen.rng(seed, "C07u", R.sysname(system), mom)
    cell = f"{R.sysname(system)}|{'mom' if mom else 'gen'}"
    # (a) every registered attribute in one multi-return probe
    names = [a for a in ATTR_ORDER if supported(attrs, dim, mom, a)]
    unknown = [a for t, s in attrs.items() for a in s if a not in ATTR_ORDER]
    if unknown:
        res.inconc(f"registered attributes not in the probe list: {sorted(set(unknown))}")
    src = "def probe(v):\n    return (" + ", ".join(f"v.{a}" for a in names) + ",)\n"
    for rep in range(2 if tier == "quick" else 6):
        v, scale = _vec(r, system, mom)
        P.run("attributes", cell, src, (v,), scale**2, unpack=names)
    # (b) unary methods
    conv = sorted(m for m in methods.get(f"VectorObject{dim}DType", ()) if m.startswith("to_") and m != "to_beta3")
    src = "def probe(v):\n    return (" + ", ".join(f"v.{m}()" for m in conv) + ",)\n"
    v, scale = _vec(r, system, mom)
    P.run("conversions", cell, src, (v,), scale, unpack=conv)
    lines, labels = [], []

    def add(expr, label):
        lines.append(expr)
        labels.append(label)
    M = lambda n: supported(methods, dim, mom, n)  # noqa: E731
    if M("unit"):
        add("v.unit()", "unit")
    for n in ("scale", "scale2D", "scale3D", "scale4D"):
        if M(n):
            add(f"v.{n}(a)", n)
            add(f"v.{n}(-a)", n + "(neg)")
    for n in ("rotateZ", "rotateX", "rotateY"):
        if M(n):
            add(f"v.{n}(b)", n)
    if M("rotate_euler"):
        for o in R.EULER_ORDERS:
            add(f'v.rotate_euler(a, b, c, "{o}")', f"rotate_euler:{o}")
        add("v.rotate_euler(a, b, c)", "rotate_euler:default")
        add('v.rotate_euler(a, b, c, "ZXZ")', "rotate_euler:upper-case-order")
        add('v.rotate_euler(a, b, c, order="Yzx")', "rotate_euler:mixed-case-order-keyword")
    if M("rotate_nautical"):
        add("v.rotate_nautical(a, b, c)", "rotate_nautical")
    if M("rotate_quaternion"):
        add("v.rotate_quaternion(0.5, a / 4, b / 4, c / 4)", "rotate_quaternion")
    for ax in "XYZ":
        if M("boost" + ax):
            add(f"v.boost{ax}(beta=a / 4)", f"boost{ax}(beta)")
            add(f"v.boost{ax}(gamma=1.0 + a)", f"boost{ax}(gamma)")
            add(f"v.boost{ax}(gamma=-1.0 - a)", f"boost{ax}(-gamma)")
    for n in ("is_timelike", "is_spacelike", "is_lightlike"):
        if M(n):
            add(f"v.{n}()", n)
            add(f"v.{n}(a)", n + "(tol)")
    if M("to_beta3"):
        add("v.to_beta3()", "to_beta3")
    src = "def probe(v, a, b, c):\n    return (" + ", ".join(lines) + ",)\n"
    for rep in range(2 if tier == "quick" else 5):
        v, scale = _vec(r, system, mom)
        a, b, c = (float(gen.dyadic(r, 0.2, 2.5)) for _ in range(3))
        P.run("scalar-argument-methods", cell, src, (v, a, b, c), scale * 8, unpack=labels)
    # predicates whose default tolerances differ (0 for is_timelike/is_spacelike, 1e-5 for is_lightlike): operands whose
    # invariant mass squared lies between those defaults (|tau2| ~ 1e-7) distinguish them
    preds = [n for n in ("is_timelike", "is_spacelike", "is_lightlike") if M(n)]
    if preds and dim == 4:
        plines = []
        for n in preds:
            plines += [f"v.{n}()", f"v.{n}(0)", f"v.{n}(0.0)", f"v.{n}(1e-5)", f"v.{n}(1e-9)", f"v.{n}(tolerance=1e-7)"]
        psrc = "def probe(v):\n    return (" + ", ".join(plines) + ",)\n"
        for causal in ("timelike", "spacelike"):
            big, sc = _vec(r, system, mom, causal=causal, forward=True)
            small = big.scale(1e-4 / max(1.0, sc / 10))
            P.run(f"predicates[small {causal}]", cell, psrc, (small,), 1.0, unpack=plines)
            P.run(f"predicates[{causal}]", cell, psrc, (big,), 1.0, unpack=plines)
    # transforms with typed dictionaries
    for n, comps in (("transform2D", "xy"), ("transform3D", "xyz"), ("transform4D", "xyzt")):
        if M(n):
            d = numba.typed.Dict()
            for p in comps:
                for q in comps:
                    d[p + q] = float(gen.dyadic(r, -2, 2, bits=8))
            v, scale = _vec(r, system, mom)
            P.run(n, cell, f"def probe(v, obj):\n    return v.{n}(obj)\n", (v, d), scale * 20)
    # (d) chains of two and three calls
    chains = ["v.scale(a).unit()", "v.rotateZ(b).scale(a).rho", "v.to_xy().rotateZ(b).phi", "(v + v).scale(a).rho2", "v.unit().rho"]
    if dim >= 3:
        chains += ["v.rotateX(a).rotateY(b).rotateZ(c)", "v.to_rhophieta().scale3D(a).mag", "v.rotate_axis(v.rotateX(b), a).z" if dim == 3 else "v.rotate_axis(v.rotateX(b).to_Vector3D(), a).z", "v.cross(v.rotateY(b)).mag" if dim == 3 else "v.to_Vector3D().cross(v.rotateY(b).to_Vector3D()).mag",
                   "v.to_Vector2D().to_Vector3D().z", "v.unit().scale(a).theta"]
    if dim == 4:
        chains += ["v.boostX(beta=a / 4).boostY(beta=b / 4).boostZ(beta=c / 4)", "v.boost_p4(v.boostX(beta=a / 4)).tau", "v.to_xyzt().boost_beta3(v.to_beta3().scale(0.5))",
                   "v.boostCM_of_p4(v).mag", "v.to_rhophietatau().scale(a).t", "v.to_Vector3D().to_Vector4D().t", "(v + v.boostZ(beta=a / 4)).tau2"]
    src = "def probe(v, a, b, c):\n    return (" + ", ".join(chains) + ",)\n"
    v, scale = _vec(r, system, mom)
    P.run("chains", cell, src, (v, 1.25, 0.5, 0.75), scale * 8, unpack=chains)
    # (f) operators and numpy functions (observed inventory of plain-function overloads)
    ops = ["-v", "+v", "abs(v)", "v * a", "a * v", "v / a", "v ** 2", "v ** a", "v + v", "v - v.scale(0.5)", "v == v", "v != v", "v @ v",
           "numpy.absolute(v)", "numpy.square(v)", "numpy.sqrt(v)", "numpy.cbrt(v)", "numpy.power(v, a)", "numpy.negative(v)",
           "numpy.positive(v)", "numpy.add(v, v)", "numpy.subtract(v, v.scale(0.5))", "numpy.multiply(v, a)", "numpy.multiply(a, v)",
           "numpy.divide(v, a)", "numpy.matmul(v, v)"]
    ops += ["numpy.power(v, 2)", "numpy.power(v, 2.0)", "v ** 2.0", "v ** two", "numpy.power(v, two)", "v ** 3", "numpy.power(v, 3)"]
    src = "def probe(v, a, two):\n    return (" + ", ".join(ops) + ",)\n"
    v, scale = _vec(r, system, mom)
    P.run("operators", cell, src, (v, 1.5, 2), scale**3 + 8, unpack=ops)
    if dim == 4:
        # spacelike and backward-pointing operands are finite and well-conditioned too (away from the light cone)
        names4 = [a for a in names if a not in ("beta", "gamma", "rapidity")]
        src_a = "def probe(v):\n    return (" + ", ".join(f"v.{a}" for a in names4) + ",)\n"
        ops_s = [o for o in ops if "sqrt" not in o and "cbrt" not in o and "** a" not in o and "power(v, a)" not in o]
        src_o = "def probe(v, a, two):\n    return (" + ", ".join(ops_s) + ",)\n"
        for causal, fwd in (("spacelike", True), ("spacelike", False), ("timelike", False)):
            if system[2] == "tau" and not fwd:
                continue  # tau storage cannot hold a negative time
            v, scale = _vec(r, system, mom, causal=causal, forward=fwd)
            lab = f"{causal}:{'fwd' if fwd else 'bwd'}"
            P.run(f"attributes[{lab}]", cell, src_a, (v,), scale**2, unpack=names4)
            P.run(f"operators[{lab}]", cell, src_o, (v, 1.5, 2), scale**3 + 8, unpack=ops_s)
            P.run(f"conversions[{lab}]", cell, "def probe(v):\n    return (" + ", ".join(f"v.{m}()" for m in conv) + ",)\n", (v,), scale, unpack=conv)


BINARY = {
    2: ["add", "subtract", "dot", "equal", "not_equal", "isclose", "deltaphi", "is_parallel", "is_antiparallel", "is_perpendicular"],
    3: ["add", "subtract", "dot", "equal", "not_equal", "isclose", "deltaphi", "is_parallel", "is_antiparallel", "is_perpendicular",
        "cross", "deltaangle", "deltaeta", "deltaR", "deltaR2"],
    4: ["add", "subtract", "dot", "equal", "not_equal", "isclose", "deltaphi", "is_parallel", "is_antiparallel", "is_perpendicular",
        "deltaangle", "deltaeta", "deltaR", "deltaR2", "deltaRapidityPhi", "deltaRapidityPhi2", "boost_p4", "boost", "boostCM_of_p4", "boostCM_of"],
}
BINARY_43 = ["boost_beta3", "boost", "boostCM_of_beta3", "boostCM_of", "rotate_axis", "deltaangle", "deltaeta", "deltaR", "deltaR2", "deltaphi"]
BINARY_33_AXIS = ["rotate_axis"]


def run_binary(spec, tier, seed, res, P, methods, attrs, funcs):
    system = tuple(spec["system"])
    dim = len(system) + 1
    r = gen.rng(seed, "C07b", R.sysname(system))
    others = R.SYSTEMS[dim]
    nother = len(others) if tier == "thorough" else 2
    flavor_pairs = [(False, False), (True, True), (True, False), (False, True)]

    def probe_src(names, extra=""):
        parts = []
        for n in names:
            if n == "rotate_axis":
                parts.append("v.rotate_axis(w, 0.5)")
            elif n == "isclose":
                parts.append("v.isclose(w)")
            else:
                parts.append(f"v.{n}(w)")
        return "def probe(v, w):\n    return (" + ", ".join(parts) + ",)\n"

    regs = [n for n in BINARY[dim] if supported(methods, dim, False, n)]
    missing = [n for n in BINARY[dim] if n not in regs]
    if missing:
        res.count("binary_methods_not_registered:" + ",".join(missing))
    for oi, s_other in enumerate(r.sample(others, nother)):
        for m1, m2 in (flavor_pairs if tier == "thorough" else [flavor_pairs[(oi + i) % 4] for i in range(2)] + [(True, False)]):
            v, sc1 = _vec(r, system, m1)
            w, sc2 = _vec(r, s_other, m2)
            cell = f"{R.sysname(system)}|{R.sysname(s_other)}|{int(m1)}{int(m2)}"
            P.run("binary-same-dimension", cell, probe_src(regs), (v, w), (sc1 + sc2) ** 2 * 4, unpack=regs)
            # the same compiled specialisation on *related* operands, where predicates and comparisons say yes: the second
            # operand is the first one itself written in the other system, a positive multiple, a negative multiple of the
            # spatial part, and (3-D, 4-D) a vector perpendicular to it
            from .. import backends as B_
            from ..engine import LVec as LVec_

            sysA, stA = B_.obj_stored(v)
            rv = B_.to_rv(sysA, stA)
            c = list(rv.comps())
            rel = {"same-vector": c, "positive-multiple": [2 * x for x in c],
                   "antiparallel": [-1.5 * x for x in c[:3]] + ([1.5 * c[3]] if dim == 4 else [])}
            if dim >= 3:
                perp = [c[1], -c[0], mpf(0)]   # (x, y, z) . (y, -x, 0) = 0
                if dim == 4:
                    perp.append(c[3])
                rel["perpendicular"] = perp
            # (only the scalar- and truth-valued members: v - v is the zero vector, whose conversion into theta / eta
            #  storage is singular -- compiled code raises ZeroDivisionError there, the interpreter returns NaN; not
            #  "well-conditioned operands")
            regs_rel = [n_ for n_ in regs if n_ in ("dot", "equal", "not_equal", "isclose", "deltaphi", "is_parallel", "is_antiparallel",
                                                    "is_perpendicular", "deltaangle", "deltaeta", "deltaR", "deltaR2")]
            for rname, comps in rel.items():
                try:
                    lw = LVec_(R.RV(*comps), s_other, m2)
                    w2 = B_.mk_obj(s_other, lw.f64()[0], m2)
                except R.NotRepresentable:
                    continue
                P.run("binary-related-operands", cell + "|" + rname, probe_src(regs_rel), (v, w2), (sc1 + sc2) ** 2 * 8, unpack=regs_rel,
                      knife_edge=("equal", "not_equal") if (rname == "same-vector" and tuple(s_other) != tuple(system)) else ())
    if dim < 4 and tuple(system) == R.SYSTEMS[dim][0]:
        # operands of unequal dimension: the interpreter raises TypeError; recorded, not judged
        v, _ = _vec(r, system, False)
        w, _ = _vec(r, R.SYSTEMS[dim + 1][0], False)
        for n in ("add", "dot", "is_parallel", "is_antiparallel"):
            P.run(f"unequal-dimensions:{n}", f"{dim}D|{dim + 1}D", f"def probe(v, w):\n    return v.{n}(w)\n", (v, w), 100.0)
    if dim == 3:
        for s_other in r.sample(others, nother):
            v, sc1 = _vec(r, system, True)
            w, sc2 = _vec(r, s_other, False)
            P.run("rotate_axis(3D)", f"{R.sysname(system)}|{R.sysname(s_other)}", "def probe(v, w):\n    return v.rotate_axis(w, 0.75)\n", (v, w), sc1 * 4)
    if dim == 4:
        regs43 = [n for n in BINARY_43 if supported(methods, 4, False, n)]
        for s_other in r.sample(R.SYSTEMS[3], len(R.SYSTEMS[3]) if tier == "thorough" else 2):
            for m1, m2 in ((True, False), (False, True)) if tier == "quick" else flavor_pairs:
                v, sc1 = _vec(r, system, m1)
                w, sc2 = _vec(r, s_other, m2)
                w = w.scale(0.4 / sc2)  # |beta| < 1
                cell = f"{R.sysname(system)}|{R.sysname(s_other)}|{int(m1)}{int(m2)}"
                P.run("binary-4D-with-3D", cell, probe_src(regs43), (v, w), sc1**2 * 8, unpack=regs43)


def run_construct(spec, tier, seed, res, P, methods, attrs, funcs):
    """(e) construction inside compiled code"""
    from .. import backends as B

    r = gen.rng(seed, "C07c", spec["dim"])
    for system in R.SYSTEMS[spec["dim"]]:
        dim = len(system) + 1
        for mom in (False, True):
            for sp in range(3 if mom else 1):
                names = B.names_for(system, mom, sp)
                if mom and not any(n in B.GENERIC_OF for n in names):
                    continue
                args = [float(gen.dyadic(r, 0.3, 3)) for _ in names]
                params = ", ".join(f"a{i}" for i in range(len(names)))
                kw = ", ".join(f"{n}=a{i}" for i, n in enumerate(names))
                src = f"def probe({params}):\n    return vector.obj({kw})\n"
                P.run("vector.obj", f"{'+'.join(names)}", src, tuple(args), 4.0)
                src2 = f"def probe({params}):\n    v = vector.obj({kw})\n    return (v.rho, v.scale(2.0), v)\n"
                P.run("vector.obj+use", f"{'+'.join(names)}", src2, tuple(args), 16.0)
    if spec["dim"] != 4:
        return
    # class constructors from coordinate objects
    src = ("def probe(x, y, z, t):\n"
           "    a = vector.backends.object.AzimuthalObjectXY(x, y)\n"
           "    l = vector.backends.object.LongitudinalObjectZ(z)\n"
           "    tt = vector.backends.object.TemporalObjectT(t)\n"
           "    return (vector.backends.object.VectorObject2D(a), vector.backends.object.VectorObject3D(a, l),\n"
           "            vector.backends.object.VectorObject4D(a, l, tt), vector.backends.object.MomentumObject4D(a, l, tt))\n")
    P.run("class-constructors", "xy_z_t", src, (1.5, -2.5, 0.75, 9.0), 10.0)
    src = ("def probe(rho, phi, eta, tau):\n"
           "    a = vector.backends.object.AzimuthalObjectRhoPhi(rho, phi)\n"
           "    l = vector.backends.object.LongitudinalObjectEta(eta)\n"
           "    tt = vector.backends.object.TemporalObjectTau(tau)\n"
           "    return (vector.backends.object.MomentumObject2D(a), vector.backends.object.MomentumObject3D(a, l),\n"
           "            vector.backends.object.VectorObject4D(a, l, tt))\n")
    P.run("class-constructors", "rhophi_eta_tau", src, (1.5, -2.5, 0.75, 9.0), 10.0)


def run_awkward(spec, tier, seed, res, P, methods, attrs, funcs):
    """(g) Awkward arrays of vectors iterated inside compiled functions"""
    from .. import awk
    from .. import backends as B
    from ..engine import LVec

    r = gen.rng(seed, "C07a", *spec["system"])
    for system in [tuple(spec["system"])]:
        dim = len(system) + 1
        for mom in (False, True):
            rows = []
            while len(rows) < 6:
                rv, _ = gen.vec4(r, core=True, causal="timelike", forward=True) if dim == 4 else gen.vec(r, dim, core=True)
                try:
                    rows.append(LVec(rv, system, mom).f64()[0])
                except R.NotRepresentable:
                    pass
            for route in ("zip", "with_name"):
                me = mom and any(B.MOM_SPELL[x] for x in R.field_names(system))
                arr = awk.build(system, rows, me, [[0, 1], [], [2, 3, 4], [5]], route=route)
                cell = f"{R.sysname(system)}|{'mom' if me else 'gen'}|{route}"
                P.run("awkward-extract", cell, "def probe(arr):\n    return (arr[2][1], arr[0][0], arr[3][0].rho)\n", (arr,), 100.0)
                src = ("def probe(arr):\n    s = 0.0\n    n = 0\n    for event in arr:\n        for v in event:\n"
                       "            s += v.rho + v.scale(2.0).rho2\n            n += 1\n    return (s, n)\n")
                P.run("awkward-loop", cell, src, (arr,), 1e4)
                if dim >= 3:
                    src = ("def probe(arr):\n    s = 0.0\n    for event in arr:\n        for i in range(len(event)):\n            for j in range(i + 1, len(event)):\n"
                           "                s += event[i].deltaR(event[j]) + event[i].add(event[j]).mag\n    return s\n")
                    P.run("awkward-pairs", cell, src, (arr,), 1e3)
                if dim == 4:
                    src = ("def probe(arr):\n    out = 0.0\n    for event in arr:\n        for v in event:\n            out += v.boostZ(beta=0.25).t + v.tau + v.rapidity\n    return out\n")
                    P.run("awkward-lorentz", cell, src, (arr,), 1e3)
            # ---- other legitimate forms of the same array (rotating with the system so that every form meets several
            # systems): the other momentum spellings with the fields in reverse order and an extra field in between;
            # a different physical layout; hand-zipped records that carry *both* spellings of a coordinate (the
            # interpreter reads the generic name, compiled code must too)
            import awkward as ak
            import vector.backends.awkward as vba

            salt = sum(map(ord, R.sysname(system))) + int(mom)
            me = mom and any(B.MOM_SPELL[x] for x in R.field_names(system))
            struct = [[0, 1], [], [2, 3, 4], [5]]
            forms = []
            forms.append(("spelling+reversed+extra", lambda: awk.build(system, rows, me, struct, route="with_name", spelling=1 + salt % 2,
                                                                          extra=True, reverse_fields=True)))
            kind = awk.PHYSICAL[salt % len(awk.PHYSICAL)]
            forms.append((f"physical={kind}", lambda: awk.relayout(awk.build(system, rows, me, struct, route=("zip", "with_name")[salt % 2]), kind)))
            if me:
                def both():
                    base = awk.build(system, rows, True, struct, route="with_name", spelling=salt % 3)
                    cols = {f: base[f] for f in ak.fields(base)}
                    for f in list(cols):
                        g = B.GENERIC_OF.get(f)
                        if g is not None:
                            cols[g] = cols[f] * 1.0           # the generic name holds the real value ...
                            cols[f] = cols[f] * 0.5 + 0.125   # ... the momentum spelling something else
                    order = sorted(cols, key=lambda f: (salt + sum(map(ord, f))) % 7)
                    return ak.zip({f: cols[f] for f in order}, with_name=f"Momentum{dim}D", behavior=vba.behavior)
                forms.append(("both-spellings-of-a-coordinate", both))
            if dim >= 3:
                def both_kinds():
                    # a record that carries two *kinds* of coordinate for one group (z and eta; t and tau / E and mass) with
                    # values that do not belong together: whichever the interpreter reads, compiled code reads too
                    base = awk.build(system, rows, me, struct, route="with_name", spelling=salt % 3)
                    cols = {f: base[f] for f in ak.fields(base)}
                    sp = salt % 3
                    if system[1] == "z":
                        cols["eta"] = cols[B.names_for(system, me, sp)[2]] * 0.0 + 0.25
                    else:
                        cols["pz" if me else "z"] = cols[B.names_for(system, me, sp)[0]] * 0.0 + 7.5
                    if dim == 4:
                        if system[2] == "t":
                            cols[("mass", "M", "m")[sp] if me else "tau"] = cols[B.names_for(system, me, sp)[0]] * 0.0 + 0.125
                        else:
                            cols[("E", "e", "energy")[sp] if me else "t"] = cols[B.names_for(system, me, sp)[0]] * 0.0 + 99.5
                    order = sorted(cols, key=lambda f: (salt + sum(map(ord, f))) % 5)
                    return ak.zip({f: cols[f] for f in order}, with_name=f"{'Momentum' if me else 'Vector'}{dim}D", behavior=vba.behavior)
                forms.append(("two-kinds-of-coordinate-in-one-group", both_kinds))
            for fname, build in forms:
                try:
                    arr = build()
                except Exception as e:
                    res.inconc(f"cannot build awkward form {fname}: {e!r}"[:200])
                    continue
                if arr is None:
                    res.count("twin_layout_not_applicable")
                    continue
                cell = f"{R.sysname(system)}|{'mom' if me else 'gen'}|{fname.split('=')[0]}"
                P.run("awkward-extract", cell, "def probe(arr):\n    return (arr[2][1], arr[0][0], arr[3][0].rho)\n", (arr,), 100.0)
                src = ("def probe(arr):\n    s = 0.0\n    n = 0\n    for event in arr:\n        for v in event:\n"
                       "            s += v.rho + v.scale(2.0).rho2" + (" + v.z" if dim >= 3 else "") + (" + v.t + v.tau" if dim == 4 else "") +
                       "\n            n += 1\n    return (s, n)\n")
                P.run("awkward-loop", cell, src, (arr,), 1e4)


def run_shard(spec, tier, seed):
    import faulthandler

    faulthandler.enable()
    res = Result()
    t0 = time.time()
    cache, methods, attrs, funcs = setup_numba()
    res.add_to("shard_walls", "")
    try:
        P = Prober(res)
        {"unary": run_unary, "binary": run_binary, "construct": run_construct, "awkward": run_awkward}[spec["part"]](spec, tier, seed, res, P, methods, attrs, funcs)
        res.count("specializations_compiled", sum(len(f.signatures) for f in P.cache.values()))
        # supplementary (not deciding): NRT allocation statistics after the probes — boxed/unboxed vectors must not leak
        try:
            import gc

            from numba.core.runtime import rtsys

            P.cache.clear()
            gc.collect()
            st = rtsys.get_allocation_stats()
            res.count("nrt_alloc", int(st.alloc))
            res.count("nrt_free", int(st.free))
            res.count("nrt_mi_alloc", int(st.mi_alloc))
            res.count("nrt_mi_free", int(st.mi_free))
        except Exception:
            res.count("nrt_stats_unavailable")
        for s in P.sources[:2]:
            res.sample({"probe_source": s, "part": spec["part"]})
        res.sets["shard_walls"] = {f"{spec.get('part')}:{'_'.join(spec.get('system', []))}:{spec.get('mom', '')}={time.time() - t0:.0f}s"}
        for tname, names in methods.items():
            for nm in names:
                res.add_to("inv", f"method:{tname}:{nm}")
        for tname, names in attrs.items():
            for nm in names:
                res.add_to("inv", f"attr:{tname}:{nm}")
        for nm in funcs:
            res.add_to("inv", f"func:{nm}")
        res.add_to("inventory", f"methods={sum(len(v) for v in methods.values())} attributes={sum(len(v) for v in attrs.values())} functions={len(funcs)}")
    finally:
        shutil.rmtree(cache, ignore_errors=True)
    return res


def finalize(total, tier, seed):
    import json

    probes = {c.split("|")[0] for c in total.cells}
    invfile = os.path.join(os.path.dirname(os.path.dirname(os.path.abspath(__file__))), "numba_inventory.json")
    observed = total.sets.get("inv", set())
    if os.path.exists(invfile) and observed:
        with open(invfile) as f:
            pinned = set(json.load(f))
        gone = sorted(pinned - observed)
        if gone:
            # a name the pinned tree supports under numba is no longer registered: compiled programs that the
            # interpreter still runs would stop compiling
            total.violation("C07/previously-supported-name-no-longer-registered", {"names": gone[:20]})
            total.counters["viol:C07/previously-supported-name-no-longer-registered"] = len(gone)
    for p in ("attributes", "conversions", "scalar-argument-methods", "chains", "operators", "binary-same-dimension", "binary-4D-with-3D",
              "vector.obj", "awkward-loop"):
        if p not in probes:
            total.inconc(f"probe family {p} never compared")
    # every probe family must have been compared for every dimension it applies to (a multi-return probe that the
    # interpreter rejects is silently skipped, which would hide a whole family for that dimension)
    for p, dims in (("attributes", (2, 3, 4)), ("chains", (2, 3, 4)), ("operators", (2, 3, 4)), ("scalar-argument-methods", (2, 3, 4)),
                    ("binary-same-dimension", (2, 3, 4))):
        for d in dims:
            if not any(c.split("|")[0] == p and len(c.split("|")[1].split("_")) == d - 1 for c in total.cells):
                total.inconc(f"probe family {p} never compared for {d}-D vectors")
    return {"nrt_supplementary": {k: total.counters.get(k, 0) for k in ("nrt_alloc", "nrt_free", "nrt_mi_alloc", "nrt_mi_free")},
            "probe_families": sorted(probes), "specializations_compiled": total.counters.get("specializations_compiled", 0),
            "interpreter_rejections": {k: v for k, v in total.counters.items() if k.startswith("interpreter_rejects")},
            "inventory": sorted(total.sets.get("inventory", []))}
