"""C11 — vector-space, dot, cross and unit-vector laws.

Law monitor on add/subtract/scale/negation/dot/cross/unit and the operator and
NumPy-function spellings, over every pairing of coordinate systems and both
flavors, on 60-digit and float64 object vectors; abs / ** / numpy.sqrt / cbrt /
power additionally on NumPy and Awkward arrays (DESIGN §3 C11).
"""
from __future__ import annotations

import mpmath
import numpy
from mpmath import mpf

from .. import backends as B
from .. import gen
from .. import laws as L
from .. import refmodel as R
from ..engine import LVec
from ..verdict import Result

LEVEL = "exploration"
AWKWARD_REGISTRATION_MIX = True
RULE = ("vector-space / dot / cross / unit laws on the public API and operators for every ordered pair of coordinate "
        "systems of equal dimension (4 + 36 + 144 pairs, third operand in a rotating system), both flavors, scalar "
        "factors of either sign; a cell is (law, system a, system b, backend), non-trivial when both sides were "
        "evaluated on representable operands and compared; mixed-backend operand pairs (array x object, NumPy x Awkward) too."
        " Backends: 60-digit objects, float64 objects, one-element NumPy and Awkward arrays.")
ASSUMPTIONS = [
    "laws are compared through the monitor's own readout of stored coordinates and its own conversions",
    "tau-stored operands are forward timelike and only meet positive factors / sums (negated or subtracted "
    "tau-stored vectors are outside the representable domain)",
    "float64 tolerance 1e-9 of the natural scale (operands in the well-conditioned core)",
]
DRAWS = {"quick": 10, "thorough": 300}
SHARD_TIMEOUT = {"quick": 900, "thorough": 7200}


def plan(tier, seed):
    specs = [{"asys": list(s), "mode": m} for s in R.ALL_SYSTEMS for m in ("mp", "f64", "numpy", "awkward")]
    specs.append({"arrays": True})
    specs += [{"mixed": True, "dim": d} for d in (2, 3, 4)]
    return specs


def _is_tau(s):
    return len(s) == 3 and s[2] == "tau"


def run_arrays(tier, seed):
    """abs, **, numpy.sqrt/cbrt/power/square/absolute are functions of the norm on object, NumPy and Awkward"""
    import awkward as ak

    res = Result()
    mode = L.Mode("f64")
    J = L.Judge(res, "C11", mode)
    r = gen.rng(seed, "C11arr")
    n = 8 if tier == "quick" else 40
    for system in R.ALL_SYSTEMS:
        dim = len(system) + 1
        for mom in (False, True):
            ls = []
            while len(ls) < n:
                rv, _ = (gen.vec4(r, core=True, causal="timelike", forward=True) if dim == 4 else gen.vec(r, dim, core=True))
                try:
                    l = LVec(rv, system, mom)
                    l.exact_coords()
                    ls.append(l)
                except R.NotRepresentable:
                    pass
            rows = [l.f64()[0] for l in ls]
            exact = [l.f64()[1] for l in ls]
            norms = [e.rho if dim == 2 else (e.mag if dim == 3 else e.tau) for e in exact]
            p = gen.dyadic(r, 0.5, 3.5, bits=4)
            funcs = {
                "abs(v)": (lambda v: abs(v), lambda nv: nv),
                "numpy.absolute(v)": (lambda v: numpy.absolute(v), lambda nv: nv),
                "v**2": (lambda v: v**2, lambda nv: nv**2),
                "numpy.square(v)": (lambda v: numpy.square(v), lambda nv: nv**2),
                "numpy.sqrt(v)": (lambda v: numpy.sqrt(v), lambda nv: mpmath.sqrt(nv)),
                "numpy.cbrt(v)": (lambda v: numpy.cbrt(v), lambda nv: mpmath.cbrt(nv)),
                "numpy.power(v,p)": (lambda v: numpy.power(v, float(p)), lambda nv: nv**p),
                "v**p": (lambda v: v ** float(p), lambda nv: nv**p),
            }
            arrs = {"numpy": B.mk_numpy_cls(system, rows, mom)}
            try:
                arrs["awkward"] = B.mk_awk(system, rows, mom and any(B.MOM_SPELL[nm] for nm in R.field_names(system)),
                                           counts=[3, 0, n - 3])
            except Exception as e:  # pragma: no cover
                res.inconc(f"cannot build awkward array: {e}")
            for fname, (f, ref) in funcs.items():
                want = [ref(nv) for nv in norms]
                cell = f"{R.sysname(system)}|{'mom' if mom else 'gen'}"
                # object, element by element
                for l, w in zip(ls[:3], want[:3]):
                    try:
                        got = f(B.mk_obj(system, l.f64()[0], mom))
                    except Exception as e:
                        res.violation(f"C11/exception {fname} backend=object", {"cell": cell, "exc": repr(e)[:200]})
                        break
                    J.num(f"{fname} is a function of the norm [object]", cell, mpf(float(got)), w, max(abs(w), mpf(1)), {"v": l.describe()})
                for bname, arr in arrs.items():
                    try:
                        got = f(arr)
                        flat = ak.to_list(ak.flatten(got, axis=None)) if bname == "awkward" else [float(x) for x in numpy.asarray(got).reshape(-1)]
                    except Exception as e:
                        res.violation(f"C11/exception {fname} backend={bname}", {"cell": cell, "exc": repr(e)[:300]})
                        continue
                    if len(flat) != n:
                        res.violation(f"C11/shape {fname} backend={bname}", {"cell": cell, "len": len(flat), "expected": n})
                        continue
                    for l, g, w in zip(ls, flat, want):
                        J.num(f"{fname} is a function of the norm [{bname}]", cell, mpf(float(g)), w, max(abs(w), mpf(1)), {"v": l.describe()})
            if system == ("xy",) and not mom:
                res.sample({"arrays": True, "system": R.sysname(system), "rows": rows[:2], "p": float(p)})
    return res


def _rvs(v):
    """canonical Cartesian values of every element of any vector (own readout of stored columns)"""
    _, system, cols, _, n = B.stored_columns(v)
    out = []
    for i in range(n):
        try:
            out.append(B.to_rv(system, [c[i] for c in cols]))
        except R.NotRepresentable:
            out.append(None)
    return out


def run_mixed(spec, tier, seed):
    """the same laws with operands in *different backends*: an array (NumPy, flat or jagged Awkward) on one side and
    a single object vector, or an array of the other library, on the other side, stored in different systems"""
    import awkward as ak

    res = Result()
    dim = spec["dim"]
    mode = L.Mode("f64")
    J = L.Judge(res, "C11", mode)
    r = gen.rng(seed, "C11mixed", dim)
    systems = R.SYSTEMS[dim]
    n = 5
    rounds = 6 if tier == "quick" else 60
    for ri in range(rounds):
        for ai, asys in enumerate(systems):
            osys = systems[(ai + ri + 1) % len(systems)]
            anytau = _is_tau(asys) or _is_tau(osys)

            def genv(system):
                if dim == 4:
                    if anytau:
                        return gen.vec4(r, core=True, causal="timelike", forward=True)
                    return gen.vec4(r, core=True)
                return gen.vec(r, dim, core=True)

            try:
                als = []
                for _ in range(n):
                    l = LVec(genv(asys)[0], asys, ri % 2 == 0)
                    l.exact_coords()
                    als.append(l)
                bls = []
                for _ in range(n):
                    l = LVec(genv(osys)[0], osys, ai % 2 == 0)
                    l.exact_coords()
                    bls.append(l)
                ol = LVec(genv(osys)[0], osys, ai % 2 == 1)
                ol.exact_coords()
            except R.NotRepresentable:
                res.count("skip_operand_not_representable")
                continue
            rows = [l.f64()[0] for l in als]
            brows = [l.f64()[0] for l in bls]
            ea = [l.f64()[1] for l in als]
            eb = [l.f64()[1] for l in bls]
            eo = ol.f64()[1]
            O = E_obj(ol)
            unit = L.maxabs(eo, *ea, *eb)
            mom_a = als[0].momentum and any(B.MOM_SPELL[nm] for nm in R.field_names(asys))
            mom_b = bls[0].momentum and any(B.MOM_SPELL[nm] for nm in R.field_names(osys))
            arrays = {
                "numpy": B.mk_numpy_cls(asys, rows, als[0].momentum),
                "awkward:flat": B.mk_awk(asys, rows, mom_a),
                "awkward:jagged": B.mk_awk(asys, rows, mom_a, counts=[2, 0, n - 2]),
            }
            others = {
                "numpy": B.mk_numpy_cls(osys, brows, bls[0].momentum),
                "awkward:flat": B.mk_awk(osys, brows, mom_b),
                "awkward:jagged": B.mk_awk(osys, brows, mom_b, counts=[2, 0, n - 2]),
            }
            k = float(gen.dyadic(r, 0.2, 4) * (1 if anytau else r.choice([1, -1])))
            det0 = {"a": [l.describe() for l in als[:2]], "o": ol.describe(), "k": k}

            def elems(law, cell, got, exp, scale, det):
                """got: any vector; exp: list of RV (or a vector) — compared element by element"""
                g = _rvs(got)
                e = exp if isinstance(exp, list) else _rvs(exp)
                if len(g) != len(e):
                    res.violation(f"C11/mixed-backend-result-length law={law}", {"cell": cell, "got": len(g), "expected": len(e), **det})
                    return
                for i, (gi, ei) in enumerate(zip(g, e)):
                    if gi is None or ei is None:
                        res.count("skip_result_not_representable")
                        continue
                    J.vec(law, cell, gi, ei, scale, {**det, "element": i})

            def nums(law, cell, got, exp, scale, det):
                g = [float(x) for x in (ak.to_list(ak.flatten(got, axis=None)) if isinstance(got, ak.Array) else numpy.asarray(got).reshape(-1))]
                e = exp if isinstance(exp, list) else [float(x) for x in (ak.to_list(ak.flatten(exp, axis=None)) if isinstance(exp, ak.Array) else numpy.asarray(exp).reshape(-1))]
                if len(g) != len(e):
                    res.violation(f"C11/mixed-backend-result-length law={law}", {"cell": cell, "got": len(g), "expected": len(e), **det})
                    return
                for i, (gi, ei) in enumerate(zip(g, e)):
                    J.num(law, cell, mpf(gi), mpf(float(ei)), scale, {**det, "element": i})

            for aname, A in arrays.items():
                cell = f"{R.sysname(asys)}|{R.sysname(osys)}|{aname}xobject"
                det = dict(det0, array=aname)
                try:
                    S = A.add(O)
                    elems("mixed: a+o = o+a", cell, S, O.add(A), unit, det)
                    elems("mixed: a+o is elementwise a[i]+o", cell, S, [R.op_add(x, eo) for x in ea], unit, det)
                    elems("mixed: operator a+o is add", cell, A + O, S, unit, det)
                    elems("mixed: operator o+a is add", cell, O + A, S, unit, det)
                    nums("mixed: a.o = o.a", cell, A.dot(O), O.dot(A), unit**2, det)
                    nums("mixed: a.o is elementwise", cell, A.dot(O), [R.op_dot(x, eo) for x in ea], unit**2, det)
                    elems("mixed: k(a+o) = ka+ko", cell, S.scale(k), A.scale(k).add(O.scale(k)), unit * max(abs(k), 1), det)
                    if not anytau:
                        D = A.subtract(O)
                        elems("mixed: (a-o)+o = a", cell, D.add(O), ea, unit, det)
                        elems("mixed: a-o = -(o-a)", cell, D, O.subtract(A).scale(-1), unit, det)
                        elems("mixed: a-o is elementwise a[i]-o", cell, D, [R.op_subtract(x, eo) for x in ea], unit, det)
                        elems("mixed: operator a-o is subtract", cell, A - O, D, unit, det)
                        elems("mixed: operator o-a is subtract", cell, O - A, O.subtract(A), unit, det)
                    if dim == 3:
                        X = A.cross(O)
                        elems("mixed: axo = -(oxa)", cell, X, O.cross(A).scale(-1), unit**2, det)
                        elems("mixed: axo is elementwise", cell, X, [R.op_cross(x, eo) for x in ea], unit**2, det)
                except Exception as e:
                    res.violation(f"C11/exception-in-mixed-backend-law array={aname.split(':')[0]}", {"cell": cell, "exc": repr(e)[:300], **det})
                for bname, Bv in others.items():
                    if aname.split(":")[0] == bname.split(":")[0] and aname != bname:
                        continue  # flat x jagged of one library does not broadcast element to element
                    if "jagged" in (aname + bname) and aname != bname:
                        continue
                    cell = f"{R.sysname(asys)}|{R.sysname(osys)}|{aname}x{bname}"
                    det = dict(det0, array=aname, other=bname, b=[l.describe() for l in bls[:2]])
                    try:
                        S = A.add(Bv)
                        elems("mixed: a+b = b+a", cell, S, Bv.add(A), unit, det)
                        elems("mixed: a+b is elementwise", cell, S, [R.op_add(x, y) for x, y in zip(ea, eb)], unit, det)
                        nums("mixed: a.b = b.a", cell, A.dot(Bv), Bv.dot(A), unit**2, det)
                        if not anytau:
                            D = A.subtract(Bv)
                            elems("mixed: (a-b)+b = a", cell, D.add(Bv), ea, unit, det)
                            elems("mixed: a-b = -(b-a)", cell, D, Bv.subtract(A).scale(-1), unit, det)
                        if dim == 3:
                            elems("mixed: axb = -(bxa)", cell, A.cross(Bv), Bv.cross(A).scale(-1), unit**2, det)
                    except Exception as e:
                        res.violation(f"C11/exception-in-mixed-backend-law pairing={aname.split(':')[0]}x{bname.split(':')[0]}",
                                      {"cell": cell, "exc": repr(e)[:300], **det})
            if ri == 0 and ai == 0:
                res.sample({"mixed": True, "dim": dim, "a_system": R.sysname(asys), "o_system": R.sysname(osys), **det0,
                            "laws_checked_so_far": res.evaluations})
    return res


def E_obj(l):
    from ..engine import mat_obj
    return mat_obj(l)


def run_shard(spec, tier, seed):
    if spec.get("arrays"):
        return run_arrays(tier, seed)
    if spec.get("mixed"):
        return run_mixed(spec, tier, seed)
    res = Result()
    asys = tuple(spec["asys"])
    dim = len(asys) + 1
    mode = L.Mode(spec["mode"])
    J = L.Judge(res, "C11", mode)
    core = not mode.mp
    r = gen.rng(seed, "C11", R.sysname(asys), mode.name)
    systems = R.SYSTEMS[dim]
    an = R.sysname(asys)

    def mk(rv, system, mom=False):
        l = LVec(rv, system, mom)
        l.exact_coords()
        return l

    def genv(system):
        if _is_tau(system):
            # forward-pointing; spacelike vectors are representable in tau storage too (negative tau), and so are their
            # sums with other forward-pointing vectors
            return gen.vec4(r, core=core, wide=False, causal=r.choice(["timelike", "timelike", "timelike", "spacelike", "spacelike"]), forward=True)
        if dim == 4:
            return gen.vec4(r, core=core, wide=False)
        return gen.vec(r, dim, core=core, wide=False)

    for di in range(DRAWS[tier] if mode.name in ("mp", "f64") else max(3, DRAWS[tier] // 5)):
        for bi, bsys in enumerate(systems):
            csys = systems[(bi + di + 1) % len(systems)]
            a_rv, alab = genv(asys)
            b_rv, _ = genv(bsys)
            c_rv, _ = genv(csys)
            try:
                al, bl, cl = mk(a_rv, asys, di % 2 == 0), mk(b_rv, bsys, bi % 2 == 0), mk(c_rv, csys, False)
            except R.NotRepresentable:
                res.count("skip_operand_not_representable")
                continue
            A, Bv, Cv = mode.vec(al), mode.vec(bl), mode.vec(cl)
            ea, eb, ec = mode.exact(al), mode.exact(bl), mode.exact(cl)
            unit = L.maxabs(ea, eb, ec)
            cell = f"{an}|{R.sysname(bsys)}"
            det = {"a": al.describe(), "b": bl.describe(), "c": cl.describe()}
            anytau = _is_tau(asys) or _is_tau(bsys) or _is_tau(csys)
            k1 = gen.dyadic(r, 0.2, 4)
            k2 = gen.dyadic(r, 0.2, 4)
            if not anytau and r.random() < 0.6:
                k1 = -k1
            if not anytau and r.random() < 0.3:
                k2 = -k2
            n1, n2 = mode.num(k1), mode.num(k2)
            dk = {**det, "k1": mpmath.nstr(k1, 20), "k2": mpmath.nstr(k2, 20)}
            ku = unit * max(abs(k1), 1) * max(abs(k2), 1)

            # addition
            AB = A.add(Bv)
            J.vec("a+b is the component-wise Cartesian sum", cell, AB, R.RV(*[p_ + q_ for p_, q_ in zip(ea.comps(), eb.comps())]), unit, det)
            if not anytau:
                # nearly cancelling operands: b' = -(1 + 2^-k) a written in b's system; the sum is 2^-k of the operands and has
                # to come out to 1e-9 of *their* size (a difference of operand-sized squares would not)
                for k_ in (12, 28, 40):
                    try:
                        cl_ = mk(R.op_scale(a_rv, -(1 + mpf(2) ** -k_)), bsys, bi % 2 == 1)
                    except R.NotRepresentable:
                        continue
                    ec_ = mode.exact(cl_)
                    J.vec(f"a+b is the component-wise Cartesian sum [b = -(1+2^-{k_}) a]", cell, A.add(mode.vec(cl_)),
                          R.RV(*[p_ + q_ for p_, q_ in zip(ea.comps(), ec_.comps())]), unit, {**det, "b": cl_.describe()})
            J.vec("add commutative a+b=b+a", cell, AB, Bv.add(A), unit, det)
            J.vec("add associative (a+b)+c=a+(b+c)", cell, AB.add(Cv), A.add(Bv.add(Cv)), unit, det)
            J.vec("subtract inverts add (a+b)-b=a", cell, AB.subtract(Bv), A, unit, det)
            J.vec("operator + is add", cell, A + Bv, AB, unit, det)
            J.vec("numpy.add is add", cell, numpy.add(A, Bv), AB, unit, det)
            J.vec("operator - is subtract [(a+b)-b]", cell, AB - Bv, AB.subtract(Bv), unit, det)
            J.vec("numpy.subtract is subtract [(a+b)-b]", cell, numpy.subtract(AB, Bv), AB.subtract(Bv), unit, det)
            if not anytau:
                J.vec("a-b=a+(-b)", cell, A.subtract(Bv), A.add(-Bv), unit, det)
                J.vec("operator - is subtract", cell, A - Bv, A.subtract(Bv), unit, det)
                J.vec("unary minus is scale(-1)", cell, -A, A.scale(mode.num(-1)), unit, det)
                J.vec("v-v=0", cell, A.subtract(A), R.RV(*([0] * dim)), unit, det)
            # scaling
            J.vec("scale distributes k(a+b)=ka+kb", cell, AB.scale(n1), A.scale(n1).add(Bv.scale(n1)), ku, dk)
            J.vec("scale composes k1(k2 a)=(k1k2)a", cell, A.scale(n2).scale(n1), A.scale(mode.num(k1 * k2)), ku, dk)
            if k1 + k2 != 0 and (not anytau or k1 + k2 > 0):
                J.vec("(k1+k2)a=k1a+k2a", cell, A.scale(mode.num(k1 + k2)), A.scale(n1).add(A.scale(n2)), ku, dk)
            J.vec("operator * is scale", cell, A * n1, A.scale(n1), ku, dk)
            J.vec("operator k*v is scale", cell, n1 * A, A.scale(n1), ku, dk)
            J.vec("operator / is scale(1/k)", cell, A / n1, A.scale(mode.num(1 / k1)), ku / abs(k1) + unit, dk)
            J.vec("unary plus is identity", cell, +A, A, unit, det)
            # scaling by exactly zero (0, 0.0, -0.0): the zero vector, in every storage, and neutral in a sum
            zero = R.RV(*([0] * dim))
            for zname, zf in (("0", 0), ("0.0", 0.0), ("-0.0", -0.0)):
                zn = mode.num(zf) if not isinstance(zf, int) or mode.mp else zf
                J.vec(f"scale({zname}) is the zero vector", cell, A.scale(zn), zero, unit, det)
                J.vec(f"v*{zname} is the zero vector", cell, A * zn, zero, unit, det)
                J.vec(f"{zname}*v is the zero vector", cell, zn * A, zero, unit, det)
            J.vec("b + 0*a = b", cell, Bv.add(A.scale(mode.num(0.0))), Bv, unit, det)
            Sa = A.scale(n1)
            J.exact("scale keeps class", cell, type(Sa) is type(A), {"got": type(Sa).__name__})
            # dot
            ab = A.dot(Bv)
            J.num("dot symmetric", cell, ab, Bv.dot(A), unit**2, det)
            J.num("dot additive (a+b).c=a.c+b.c", cell, AB.dot(Cv), L.num_of(A.dot(Cv)) + L.num_of(Bv.dot(Cv)), unit**2, det)
            J.num("dot homogeneous (ka).b=k(a.b)", cell, A.scale(n1).dot(Bv), k1 * L.num_of(ab), unit**2 * max(abs(k1), 1), dk)
            if mode.name == "awkward":
                res.count("operator_matmul_skipped_for_awkward(C05 known finding)")
            else:
                J.num("operator @ is dot", cell, A @ Bv, ab, unit**2, det)
            exp_dot = R.op_dot(ea, eb)
            J.num("dot is Euclidean (2D/3D) / Minkowski (4D)", cell, ab, exp_dot, unit**2, det)
            selfdot = A.dot(A)
            J.num("v.v = rho2|mag2|tau2", cell, selfdot, {2: lambda: A.rho2, 3: lambda: A.mag2, 4: lambda: A.tau2}[dim](), unit**2, det)
            # cross (3-D only)
            if dim == 3:
                AxB = A.cross(Bv)
                J.vec("cross antisymmetric axb=-(bxa)", cell, AxB, Bv.cross(A).scale(mode.num(-1)), unit**2, det)
                J.vec("cross additive (a+b)xc=axc+bxc", cell, AB.cross(Cv), A.cross(Cv).add(Bv.cross(Cv)), unit**2, det)
                J.vec("cross homogeneous (ka)xb=k(axb)", cell, A.scale(n1).cross(Bv), AxB.scale(n1), unit**2 * max(abs(k1), 1), dk)
                J.num("cross orthogonal to a", cell, AxB.dot(A), mpf(0), unit**3, det)
                J.num("cross orthogonal to b", cell, AxB.dot(Bv), mpf(0), unit**3, det)
                J.num("Lagrange |axb|^2=|a|^2|b|^2-(a.b)^2", cell, AxB.mag2,
                      L.num_of(A.mag2) * L.num_of(Bv.mag2) - L.num_of(ab) ** 2, unit**4, det)
                J.vec("cross is the right-handed product", cell, AxB, R.op_cross(ea, eb), unit**2, det)
            # unit
            if dim < 4 or (ea.t > 0 and ea.tau2 > mpf("0.01") * ea.t2):
                U = A.unit()
                nrm = {2: lambda v: v.rho, 3: lambda v: v.mag, 4: lambda v: v.tau}[dim]
                J.num("unit() has norm one", cell, nrm(U), mpf(1), mpf(1), det)
                J.vec("unit() is parallel: unit*norm=v", cell, U.scale(nrm(A)), A, unit, det)
                J.exact("unit keeps class", cell, type(U) is type(A), {"got": type(U).__name__})
            # abs / ** on objects
            nexp = ea.rho if dim == 2 else (ea.mag if dim == 3 else ea.tau)
            if dim < 4 or ea.tau2 > mpf("0.01") * ea.t2:
                J.num("abs(v) is the norm", cell, abs(A), nexp, unit, det)
                J.num("v**2 is the squared norm", cell, A**2, nexp**2, unit**2, det)
        if di == 0:
            res.sample({"a": al.describe(), "b": bl.describe(), "c": cl.describe(), "mode": mode.name,
                        "k1": mpmath.nstr(k1, 20), "laws_checked_so_far": res.evaluations})
    return res


def finalize(total, tier, seed):
    laws = {c.split("|")[0] for c in total.cells}
    if len(laws) < 40:
        total.inconc(f"only {len(laws)} distinct laws exercised")
    pairs = {tuple(c.split("|")[1:3]) for c in total.cells if c.startswith("add commutative")}
    want = 4 + 36 + 144
    if len(pairs) < want:
        total.inconc(f"only {len(pairs)} of {want} system pairs compared for add")
    return {"laws": len(laws), "system_pairs_add": len(pairs)}
