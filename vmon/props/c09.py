"""C09 — boosts are Lorentz transformations with the documented relations.

Law monitor on the public boost methods: Minkowski-product invariance, proper
time, inverses, collinear composition, agreement of all spellings, centre-of-
mass boosts — for every coordinate system of vector and booster, on 60-digit
object vectors and on float64 object vectors (DESIGN §3 C09).
"""
from __future__ import annotations

import mpmath
from mpmath import mpf

from .. import engine as E
from .. import gen
from .. import laws as L
from .. import refmodel as R
from ..engine import LVec
from ..verdict import Result

LEVEL = "exploration"
RULE = ("algebraic laws of boosts checked on the public API for every coordinate system of the boosted "
        "vector (12) and of the booster (12 for p4, 6 for beta3), operands over timelike/spacelike/"
        "near-light-cone/ultra-relativistic strata; a cell is (law, vector system, booster system, backend) "
        "and is non-trivial when both sides of the law were evaluated on representable operands and compared; backends: 60-digit "
        "objects, float64 objects, and one-element NumPy and Awkward arrays (the same public calls through the array backends)")
ASSUMPTIONS = [
    "laws are compared through the monitor's own readout of stored coordinates and its own conversions",
    "tau-stored operands are forward timelike (so that every intermediate stays representable); t-stored operands are arbitrary",
    "float64: |beta| <= 0.95; tolerance 1e-9 x gamma^2; mp: 1e-35/1e-20 x gamma^2",
]
DRAWS = {"quick": 20, "thorough": 800}
SHARD_TIMEOUT = {"quick": 900, "thorough": 7200}
S4 = R.SYSTEMS[4]
S3 = R.SYSTEMS[3]


def plan(tier, seed):
    return [{"vsys": list(s), "mode": m} for s in S4 for m in ("mp", "f64", "numpy", "awkward", "record")]


def _vec4_for(r, system, core):
    """-> (rv, label, mild): tau-stored operands must stay representable (t >= 0) through every boost of the laws:
    forward timelike vectors always do; a spacelike vector with t >= 0.7|p| does under |beta| <= 0.5 (mild=True)"""
    if system[2] == "tau":
        if r.random() < 0.35:
            v3, lab = gen.vec3(r, core=True)
            t = gen._round_dyadic(v3.mag * gen.dyadic(r, 0.72, 0.95), 40)
            return R.RV(v3.x, v3.y, v3.z, t), lab + ":spacelike:fwd:tau", True
        rv, lab = gen.vec4(r, core=core, wide=not core, causal=r.choice(["timelike", "timelike", "nearcone+"]) if not core else "timelike",
                           forward=True)
        return rv, lab, False
    rv, lab = gen.vec4(r, core=core, wide=not core)
    return rv, lab, False


def _gamma2(b2):
    return 1 / (1 - b2)


def run_shard(spec, tier, seed):
    res = Result()
    vsys = tuple(spec["vsys"])
    mode = L.Mode(spec["mode"])
    J = L.Judge(res, "C09", mode)
    core = not mode.mp
    r = gen.rng(seed, "C09", R.sysname(vsys), mode.name)
    n = DRAWS[tier] if mode.name in ("mp", "f64") else max(4, DRAWS[tier] // 5)
    ONE = mpf(1)

    def mk(rv, system, mom=False):
        l = LVec(rv, system, mom)
        l.exact_coords()
        return l

    for di in range(n):
        # ------------------------------------------------------------------ operands
        a_rv, alab, mild_a = _vec4_for(r, vsys, core)
        # second vector for the invariance law, in a rotating system
        bsys = S4[(di * 5 + 1) % 12]
        b_rv, blab, mild_b = _vec4_for(r, bsys, core)
        mild = mild_a or mild_b
        try:
            a_l, b_l = mk(a_rv, vsys, di % 2 == 0), mk(b_rv, bsys, di % 3 == 0)
        except R.NotRepresentable:
            res.count("skip_operand_not_representable")
            continue
        A, Bv = mode.vec(a_l), mode.vec(b_l)
        unit = L.maxabs(mode.exact(a_l), mode.exact(b_l))
        ab = A.dot(Bv)

        # ------------------------------------------------------------------ boost_beta3, all booster systems
        for s3 in S3:
            beta_rv, _ = gen.beta3(r, core=core, mp=mode.mp)
            if mild and beta_rv.mag > mpf("0.5"):
                beta_rv = R.RV(beta_rv.x / 2, beta_rv.y / 2, beta_rv.z / 2)
            try:
                be_l = mk(beta_rv, s3, di % 2 == 1)
                nb_l = mk(R.op_neg(beta_rv, 3), s3, False)
            except R.NotRepresentable:
                res.count("skip_operand_not_representable")
                continue
            g2 = _gamma2(mode.exact(be_l).mag2)
            if g2 <= 0:
                continue
            cell = f"{R.sysname(vsys)}|{R.sysname(s3)}"
            BE, NB = mode.vec(be_l), mode.vec(nb_l)
            det = {"a": a_l.describe(), "beta3": be_l.describe(), "label": alab}
            Ab = A.boost_beta3(BE)
            Bb = Bv.boost_beta3(BE)
            J.num("beta3-invariance (La).(Lb)=a.b", cell, Ab.dot(Bb), ab, unit**2, det, gain=g2)
            J.num("beta3-tau2-preserved", cell, Ab.tau2, A.tau2, unit**2, det, gain=g2)
            J.vec("beta3-inverse boost(-b)(boost(b)a)=a", cell, Ab.boost_beta3(NB), A, unit, det, gain=g2)
            J.vec("boost(3D booster)=boost_beta3", cell, A.boost(BE), Ab, unit, det, gain=g2)
            J.vec("boostCM_of_beta3(b)=boost_beta3(-b)", cell, A.boostCM_of_beta3(BE), A.boost_beta3(NB), unit, det, gain=g2)
            J.vec("boostCM_of(3D)=boostCM_of_beta3", cell, A.boostCM_of(BE), A.boostCM_of_beta3(BE), unit, det, gain=g2)
            J.exact("boost keeps class/flavor/dimension", cell,
                    type(Ab) is type(A) or (type(Ab).__name__.replace("Momentum", "Vector") == type(A).__name__.replace("Momentum", "Vector")),
                    {"got": type(Ab).__name__, "self": type(A).__name__})

        # ------------------------------------------------------------------ zero velocity: every boost is the identity
        for s3 in (("xy", "z"), ("rhophi", "z")):
            z_l = mk(R.RV(0, 0, 0), s3, di % 2 == 0)
            Z0 = mode.vec(z_l)
            cell = f"{R.sysname(vsys)}|zero:{R.sysname(s3)}"
            det = {"a": a_l.describe(), "label": alab}
            J.vec("boost_beta3(0) is the identity", cell, A.boost_beta3(Z0), A, unit, det)
            J.vec("boost(zero 3-vector) is the identity", cell, A.boost(Z0), A, unit, det)
            J.vec("boostCM_of_beta3(0) is the identity", cell, A.boostCM_of_beta3(Z0), A, unit, det)
        for ax in "XYZ":
            J.vec("boostX(beta=0) is the identity", f"{R.sysname(vsys)}|{ax}", getattr(A, "boost" + ax)(beta=mode.num(0)), A, unit, {"a": a_l.describe()})
            J.vec("boostX(gamma=1) is the identity", f"{R.sysname(vsys)}|{ax}", getattr(A, "boost" + ax)(gamma=mode.num(1)), A, unit, {"a": a_l.describe()})
        # a booster exactly at rest (representable with z-longitudinal storage): boost_p4 is the identity and agrees with beta3
        for s4 in (("xy", "z", "t"), ("xy", "z", "tau"), ("rhophi", "z", "t"), ("rhophi", "z", "tau")):
            rest = mk(R.RV(0, 0, 0, gen.dyadic(r, 0.5, 9)), s4, di % 2 == 1)
            PR = mode.vec(rest)
            cell = f"{R.sysname(vsys)}|rest:{R.sysname(s4)}"
            det = {"a": a_l.describe(), "p4": rest.describe()}
            J.vec("boost_p4(p at rest) is the identity", cell, A.boost_p4(PR), A, unit, det)
            J.vec("boost_p4(p)=boost_beta3(p.to_beta3()) at rest", cell, A.boost_p4(PR), A.boost_beta3(PR.to_beta3()), unit, det)
        # ------------------------------------------------------------------ boost_p4, all booster systems
        for s4 in S4:
            p_rv, plab = gen.vec4(r, core=True, causal="timelike", forward=True)
            if mode.mp and r.random() < 0.3:
                m = p_rv.mag
                p_rv = R.RV(p_rv.x, p_rv.y, p_rv.z, gen._round_dyadic(m * (1 + mpf(2) ** r.choice([-6, -12, -20])), 50))
            try:
                p_l = mk(p_rv, s4, di % 2 == 0)
            except R.NotRepresentable:
                res.count("skip_operand_not_representable")
                continue
            pe = mode.exact(p_l)
            if not (pe.t > 0 and pe.tau2 > 0):
                continue
            if mild and pe.mag > mpf("0.5") * pe.t:
                continue
            g2 = pe.t2 / pe.tau2
            cell = f"{R.sysname(vsys)}|{R.sysname(s4)}"
            P = mode.vec(p_l)
            det = {"a": a_l.describe(), "p4": p_l.describe(), "label": alab + "/" + plab}
            Ap = A.boost_p4(P)
            J.num("p4-invariance (La).(Lb)=a.b", cell, Ap.dot(Bv.boost_p4(P)), ab, unit**2, det, gain=g2)
            J.vec("boost_p4(p)=boost_beta3(p.to_beta3())", cell, Ap, A.boost_beta3(P.to_beta3()), unit, det, gain=g2)
            J.vec("boost(4D booster)=boost_p4", cell, A.boost(P), Ap, unit, det, gain=g2)
            J.vec("p4-inverse boostCM_of_p4(p)(boost_p4(p)a)=a", cell, Ap.boostCM_of_p4(P), A, unit, det, gain=g2 * g2)
            J.vec("boostCM_of(4D)=boostCM_of_p4", cell, A.boostCM_of(P), A.boostCM_of_p4(P), unit, det, gain=g2)
            # centre of mass of p itself: zero spatial part, time component tau
            pu = L.maxabs(pe)
            for nm, cm in (("boostCM_of_p4", lambda: P.boostCM_of_p4(P)),
                           ("boostCM_of_beta3", lambda: P.boostCM_of_beta3(P.to_beta3())),
                           ("boostCM_of", lambda: P.boostCM_of(P))):
                rest, _ = L.rv_of(cm())
                J.vec(f"v.{nm}(v) is at rest with t=tau", cell, rest, R.RV(0, 0, 0, pe.tau), pu, det, gain=g2)

        # ------------------------------------------------------------------ axis boosts
        for i, ax in enumerate("XYZ"):
            meth = f"boost{ax}"
            b1 = gen.beta(r, core, mode.mp)
            b2 = gen.beta(r, True, mode.mp)
            if mild:
                b1, b2 = b1 / 4 if abs(b1) > mpf("0.25") else b1, b2 / 4
            g2 = 1 / (1 - b1 * b1)
            cell = f"{R.sysname(vsys)}|{ax}"
            det = {"a": a_l.describe(), "beta": mpmath.nstr(b1, 25), "beta2": mpmath.nstr(b2, 25), "label": alab}
            Ax = getattr(A, meth)(beta=mode.num(b1))
            J.num(f"axis-invariance", cell, Ax.dot(getattr(Bv, meth)(beta=mode.num(b1))), ab, unit**2, det, gain=g2)
            J.vec("axis-inverse boostX(-b)(boostX(b)a)=a", cell, getattr(Ax, meth)(beta=mode.num(-b1)), A, unit, det, gain=g2)
            comp = (b1 + b2) / (1 + b1 * b2)
            g2c = g2 / (1 - b2 * b2)
            J.vec("collinear composition by velocity addition", cell,
                  getattr(Ax, meth)(beta=mode.num(b2)), getattr(A, meth)(beta=mode.num(comp)), unit, det, gain=g2c * 4)
            axis = [mpf(0)] * 3
            axis[i] = b1
            for s3 in (S3[(di + i) % 6], ("xy", "z")):
                try:
                    ax_l = mk(R.RV(*axis), s3)
                except R.NotRepresentable:
                    continue  # an axis vector along z is not representable in theta/eta storage
                J.vec("boostX(beta)=boost_beta3(beta e_x)", cell + "|" + R.sysname(s3), Ax, A.boost_beta3(mode.vec(ax_l)), unit, det, gain=g2)
            gm = gen.gamma(r, core)
            if mild:
                gm = (1 + mpf(2) ** -5) * (1 if gm > 0 else -1)
            bg = R.gamma_to_beta(gm)
            g2g = gm * gm
            detg = {"a": a_l.describe(), "gamma": mpmath.nstr(gm, 25), "label": alab}
            J.vec("boostX(gamma=g)=boostX(beta=sign(g)sqrt(1-1/g^2))", cell,
                  getattr(A, meth)(gamma=mode.num(gm)), getattr(A, meth)(beta=mode.num(bg)), unit, detg, gain=g2g * 4)
        # ------------------------------------------------------------------ the gamma that is asked for is the gamma applied,
        # at float64 accuracy: the result equals the 60-digit reference to a few hundred roundings of its own size
        # (|gamma| x unit), for Lorentz factors up to 1e6.  (Going through beta = sqrt(1 - 1/gamma^2) and back costs
        # gamma^2 roundings and is what this law is there to notice.)
        if not mode.mp and not mild:
            eps = mpf(2) ** -52
            for i, ax in enumerate("XYZ"):
                g = mpf(float(r.choice([1, -1]) * mpf(10) ** gen.dyadic(r, 0.5, 6, bits=8)))
                ea = mode.exact(a_l)
                try:
                    got, gsys = L.rv_of(getattr(A, "boost" + ax)(gamma=float(g)))
                    exp = R.op_boost_axis_gamma(ea, i, g)
                except Exception as e:
                    res.violation(f"C09/exception-in-large-gamma-boost backend={mode.name}",
                                  {"cell": f"{R.sysname(vsys)}|{ax}", "exc": repr(e)[:200], "gamma": mpmath.nstr(g, 17)})
                    continue
                res.evaluations += 1
                scale = abs(g) * L.maxabs(ea)
                err = max(abs(p - q) for p, q in zip(got.comps(), exp.comps())) / (scale * eps)
                res.err(f"{mode.name}:boostX(gamma) error in roundings of |gamma| x unit", err)
                if not err <= 2048:
                    res.violation(f"C09/law-broken law=boostX(gamma=g) applies the Lorentz factor g at float64 accuracy backend={mode.name}",
                                  {"cell": f"{R.sysname(vsys)}|{ax}", "a": a_l.describe(), "gamma": mpmath.nstr(g, 17),
                                   "error_in_roundings_of_gamma_x_unit": mpmath.nstr(err, 6), "got": repr(got), "expected": repr(exp)})
                res.cell("boostX(gamma=g) applies g at float64 accuracy", R.sysname(vsys), ax, mode.name)
        # ------------------------------------------------------------------ slow boosts at float64 accuracy: for |beta| from 1e-3 down
        # to 1e-12 the boosted vector equals the 60-digit reference to a few roundings of the vector's size (a gamma-based
        # formula, sqrt(gamma**2 - 1), would lose the velocity altogether below 1e-8)
        if not mode.mp:
            eps = mpf(2) ** -52
            ea = mode.exact(a_l)
            for i, ax in enumerate("XYZ"):
                b_ = mpf(r.choice([1, -1])) * mpf(2) ** r.choice([-10, -20, -30, -40])
                try:
                    got, _gs = L.rv_of(getattr(A, "boost" + ax)(beta=float(b_)))
                    exp = R.op_boost_axis_beta(ea, i, b_)
                except R.NotRepresentable:
                    continue
                except Exception as e:
                    res.violation(f"C09/exception-in-slow-boost backend={mode.name}", {"cell": f"{R.sysname(vsys)}|{ax}", "exc": repr(e)[:200]})
                    continue
                res.evaluations += 1
                err = max(abs(p_ - q_) for p_, q_ in zip(got.comps(), exp.comps())) / (L.maxabs(ea) * eps)
                res.err(f"{mode.name}:slow boostX(beta) error in roundings of the vector's size", err)
                if not err <= 64:
                    res.violation(f"C09/law-broken law=boostX(beta=b) for slow b at float64 accuracy backend={mode.name}",
                                  {"cell": f"{R.sysname(vsys)}|{ax}", "a": a_l.describe(), "beta": mpmath.nstr(b_, 17),
                                   "error_in_roundings_of_unit": mpmath.nstr(err, 6)})
                res.cell("slow boostX(beta) at float64 accuracy", R.sysname(vsys), ax, mode.name)
        # ------------------------------------------------------------------ a booster that is *stored with its mass*
        # (any of the six tau systems) determines the boost to float64 accuracy however relativistic it is: the result of
        # boost_p4 / boost / boostCM_of_p4 equals the 60-digit boost by the stored booster to a few hundred roundings of
        # gamma x unit.  (Recomputing the mass from E**2 - p**2 loses gamma^2 roundings; this law is there to notice.)
        if not mode.mp and not mild:
            eps = mpf(2) ** -52
            tausys = [s_ for s_ in R.SYSTEMS[4] if s_[2] == "tau"]
            for k_ in range(2):
                bsys = tausys[(di * 2 + k_) % len(tausys)]
                g = mpf(10) ** gen.dyadic(r, 0.3, 6, bits=8)
                d3, _ = gen.vec3(r, core=True)
                m_ = gen.dyadic(r, 0.5, 2)
                pm = m_ * mpmath.sqrt(g * g - 1) / d3.mag
                try:
                    p_l = mk(R.RV(d3.x * pm, d3.y * pm, d3.z * pm, m_ * g), bsys, k_ == 0)
                except R.NotRepresentable:
                    continue
                ep = mode.exact(p_l)      # the vector the stored float64 coordinates denote
                gam = ep.t / ep.tau
                P = mode.vec(p_l)
                ea = mode.exact(a_l)
                for spelling, f, ref in (("boost_p4", lambda: A.boost_p4(P), lambda: R.op_boost_p4(ea, ep)),
                                         ("boost", lambda: A.boost(P), lambda: R.op_boost_p4(ea, ep)),
                                         ("boostCM_of_p4", lambda: A.boostCM_of_p4(P), lambda: R.op_boost_p4(ea, R.RV(-ep.x, -ep.y, -ep.z, ep.t))),
                                         ("boostCM_of", lambda: A.boostCM_of(P), lambda: R.op_boost_p4(ea, R.RV(-ep.x, -ep.y, -ep.z, ep.t)))):
                    try:
                        got, _gs = L.rv_of(f())
                        exp = ref()
                    except R.NotRepresentable:
                        res.count("skip_result_not_representable")
                        continue
                    except Exception as e:
                        res.violation(f"C09/exception-in-large-gamma-boost backend={mode.name}",
                                      {"cell": f"{R.sysname(vsys)}|{spelling}|{R.sysname(bsys)}", "exc": repr(e)[:200], "gamma": mpmath.nstr(gam, 17)})
                        continue
                    res.evaluations += 1
                    scale = gam * L.maxabs(ea)
                    err = max(abs(p_ - q_) for p_, q_ in zip(got.comps(), exp.comps())) / (scale * eps)
                    res.err(f"{mode.name}:boost by a mass-stored booster, error in roundings of gamma x unit", err)
                    if not err <= 512:
                        res.violation(f"C09/law-broken law=a mass-stored booster determines the boost at float64 accuracy backend={mode.name}",
                                      {"cell": f"{R.sysname(vsys)}|{spelling}|{R.sysname(bsys)}", "a": a_l.describe(), "booster": p_l.describe(),
                                       "gamma": mpmath.nstr(gam, 17), "error_in_roundings_of_gamma_x_unit": mpmath.nstr(err, 6)})
                    res.cell("a mass-stored booster determines the boost at float64 accuracy", R.sysname(vsys), spelling, mode.name)
                # boost() / boostCM_of() *dispatch* on the booster's dimension: with the same (ultra-relativistic) booster, stored
                # with t or with tau, they are the explicit spelling -- to a few roundings of the result, not to gamma^2 of them
                for ts in (bsys, bsys[:2] + ("t",)):
                    try:
                        q_l = mk(p_l.rv, ts, k_ == 1)
                    except R.NotRepresentable:
                        continue
                    Qb = mode.vec(q_l)
                    for gen_name, exp_name in (("boost", "boost_p4"), ("boostCM_of", "boostCM_of_p4")):
                        try:
                            g1, _ = L.rv_of(getattr(A, gen_name)(Qb))
                            g2, _ = L.rv_of(getattr(A, exp_name)(Qb))
                        except R.NotRepresentable:
                            continue
                        res.evaluations += 1
                        err = max(abs(p_ - q_) for p_, q_ in zip(g1.comps(), g2.comps())) / (gam * L.maxabs(ea) * eps)
                        if not err <= 64:
                            res.violation(f"C09/law-broken law={gen_name}(4D booster) is {exp_name} backend={mode.name}",
                                          {"cell": f"{R.sysname(vsys)}|{R.sysname(ts)}", "a": a_l.describe(), "booster": q_l.describe(),
                                           "gamma": mpmath.nstr(gam, 17), "difference_in_roundings_of_gamma_x_unit": mpmath.nstr(err, 6)})
                        res.cell(f"{gen_name}(4D booster) is {exp_name} at any gamma", R.sysname(vsys), R.sysname(ts), mode.name)
                # the same for a 3-D velocity close to the light cone
                bmag = mpmath.sqrt(1 - 1 / (g * g))
                for s3 in (R.SYSTEMS[3][(di + k_) % len(R.SYSTEMS[3])],):
                    try:
                        v_l = mk(R.RV(d3.x * bmag / d3.mag, d3.y * bmag / d3.mag, d3.z * bmag / d3.mag), s3, k_ == 1)
                    except R.NotRepresentable:
                        continue
                    eb = mode.exact(v_l)
                    if not eb.mag2 < 1:
                        continue
                    gam3 = 1 / mpmath.sqrt(1 - eb.mag2)
                    Vb = mode.vec(v_l)
                    for gen_name, exp_name in (("boost", "boost_beta3"), ("boostCM_of", "boostCM_of_beta3")):
                        try:
                            g1, _ = L.rv_of(getattr(A, gen_name)(Vb))
                            g2, _ = L.rv_of(getattr(A, exp_name)(Vb))
                        except R.NotRepresentable:
                            continue
                        res.evaluations += 1
                        err = max(abs(p_ - q_) for p_, q_ in zip(g1.comps(), g2.comps())) / (gam3 * L.maxabs(ea) * eps)
                        if not err <= 64:
                            res.violation(f"C09/law-broken law={gen_name}(3D velocity) is {exp_name} backend={mode.name}",
                                          {"cell": f"{R.sysname(vsys)}|{R.sysname(s3)}", "a": a_l.describe(), "velocity": v_l.describe(),
                                           "gamma": mpmath.nstr(gam3, 17), "difference_in_roundings_of_gamma_x_unit": mpmath.nstr(err, 6)})
                        res.cell(f"{gen_name}(3D velocity) is {exp_name} at any gamma", R.sysname(vsys), R.sysname(s3), mode.name)
        if di == 0:
            res.sample({"vector": a_l.describe(), "second": b_l.describe(), "mode": mode.name, "label": alab,
                        "laws_checked_so_far": res.evaluations})
    return res


def finalize(total, tier, seed):
    laws = {c.split("|")[0] for c in total.cells}
    need = 20
    if len(laws) < need:
        total.inconc(f"only {len(laws)} distinct laws were exercised (expected >= {need})")
    for m in ("mp", "f64", "numpy", "awkward", "record"):
        if not any(c.endswith("|" + m) for c in total.cells):
            total.inconc(f"mode {m} never compared")
    return {"laws": sorted(laws)}
