"""C12 — equality, inequality and closeness are coherent.

Pairs of float64 vectors that are identical / differ in exactly one stored
coordinate (each in turn) / in a proper subset / in all, for every pairing of
coordinate systems, on object vectors, NumPy arrays, Awkward arrays and mixed
pairings.  Oracles: reflexivity, symmetry, `!=` is `not ==`, same-system `==`
and `isclose` against the stored coordinates, implication and monotonicity in
the tolerances, operators = methods = NumPy functions, arrays = objects
element by element (DESIGN §3 C12).
"""
from __future__ import annotations

import itertools

import numpy
from mpmath import mpf

from .. import backends as B
from .. import gen
from .. import refmodel as R
from ..engine import LVec
from ..verdict import Result

LEVEL = "exploration"
AWKWARD_REGISTRATION_MIX = True
RULE = ("for every ordered pair of coordinate systems of equal dimension (4+36+144), pairs of float64 vectors whose "
        "stored coordinate groups are bit-identical or perturbed according to every subset pattern (none, each single "
        "coordinate, proper subsets, all); ==, !=, equal, not_equal, isclose, allclose and the numpy.* spellings on object, "
        "NumPy and Awkward vectors and mixed pairings; a cell is (system pair, difference pattern, backend pairing) and "
        "is non-trivial when at least the negation and symmetry oracles were evaluated on it")
ASSUMPTIONS = [
    "operands are finite and NaN-free; -0.0 and 0.0 count as equal coordinates",
    "same-system isclose is judged only when every |a_i-b_i| is not within 1e-12 (relative) of atol+rtol*|b_i|",
    "numpy.isclose/allclose on two object vectors or on Awkward arrays is not a documented spelling and is not judged",
]
SHARD_TIMEOUT = {"quick": 900, "thorough": 7200}
TOLS = [(0.0, 0.0), (1e-12, 0.0), (0.0, 1e-12), (1e-9, 1e-9), (1e-5, 1e-8), (1e-3, 0.0), (0.0, 1e-3), (0.22, 0.0), (0.3, 0.0),
        (0.0, 50.0), (1e300, 0.0)]
PERT = [2.0 ** -45, 2.0 ** -20, 0.25]
GROUPS = {2: ((0, 1),), 3: ((0, 1), (2,)), 4: ((0, 1), (2,), (3,))}


def plan(tier, seed):
    specs = []
    for d in (2, 3, 4):
        for s in R.SYSTEMS[d]:
            specs.append({"dim": d, "asys": list(s)})
    return specs


def _pairs(r, dim, s1, s2, tier):
    """yield (pattern name, coords_a, coords_b) with bit-level control over which coordinates differ"""
    n = 3 if tier == "quick" else 30
    for _ in range(n):
        while True:
            rv, _lab = (gen.vec4(r, core=True) if dim == 4 else gen.vec(r, dim, core=True))
            try:
                la, lb = LVec(rv, s1), LVec(rv, s2)
                ca, cb = list(la.f64()[0]), list(lb.f64()[0])
                break
            except R.NotRepresentable:
                continue
        shared = []  # coordinate indices whose type is the same in both systems
        for gi, idxs in enumerate(GROUPS[dim]):
            if s1[gi] == s2[gi]:
                shared.extend(idxs)
                for i in idxs:
                    cb[i] = ca[i]
        nco = len(ca)
        # difference patterns over coordinate indices (for shared coords: exact control; for unshared: perturb b)
        pats = [()]  # nothing perturbed
        pats += [(i,) for i in range(nco)]
        if nco > 2:
            pats += [tuple(sorted(r.sample(range(nco), k))) for k in range(2, nco)]
        pats.append(tuple(range(nco)))
        for pat in pats:
            b = list(cb)
            eps = r.choice(PERT)
            for i in pat:
                b[i] = b[i] * (1 + eps) if b[i] != 0 else eps
            kind = "none" if not pat else ("all" if len(pat) == nco else ("one" if len(pat) == 1 else "subset"))
            yield f"{kind}:{''.join(map(str, pat))}", tuple(ca), tuple(b), shared


def _expected_same_system(ca, cb, rtol, atol):
    """(eq, isclose or None if on the boundary)"""
    eq = all(x == y for x, y in zip(ca, cb))
    close = True
    for x, y in zip(ca, cb):
        d = abs(mpf(x) - mpf(y))
        bound = mpf(atol) + mpf(rtol) * abs(mpf(y))
        if abs(d - bound) <= mpf(10) ** -12 * max(bound, d, mpf(10) ** -300) and d != 0:
            return eq, None
        if d > bound:
            close = False
    return eq, close


def _b(x):
    if isinstance(x, (bool, numpy.bool_)):
        return bool(x)
    raise TypeError(f"expected a bool, got {type(x).__name__}: {x!r}")


def run_shard(spec, tier, seed):
    import awkward as ak

    res = Result()
    dim = spec["dim"]
    s1 = tuple(spec["asys"])
    r = gen.rng(seed, "C12", R.sysname(s1))

    def viol(mech, cell, **d):
        res.violation(f"C12/{mech}", {"cell": cell, **d})

    for s2 in R.SYSTEMS[dim]:
        same = s1 == s2
        batch = list(_pairs(r, dim, s1, s2, tier))
        cellbase = f"{R.sysname(s1)}|{R.sysname(s2)}"
        obj_results = []
        for pi, (pat, ca, cb, shared) in enumerate(batch):
            ma, mb = (pi % 2 == 0), (pi % 3 == 0)
            A, Bv = B.mk_obj(s1, ca, ma), B.mk_obj(s2, cb, mb)
            cell = f"{cellbase}|{pat.split(':')[0]}"
            det = {"a": [repr(x) for x in ca], "b": [repr(x) for x in cb], "pattern": pat,
                   "systems": [R.sysname(s1), R.sysname(s2)]}
            try:
                eq, ne = _b(A == Bv), _b(A != Bv)
                eqm, nem = _b(A.equal(Bv)), _b(A.not_equal(Bv))
                eqn, nen = _b(numpy.equal(A, Bv)), _b(numpy.not_equal(A, Bv))
                eqr, ner = _b(Bv == A), _b(Bv != A)
            except Exception as e:
                viol("exception-in-equality backend=object", cell, exc=repr(e)[:300], **det)
                continue
            res.evaluations += 8
            if ne != (not eq):
                viol("ne-not-negation-of-eq", cell, eq=eq, ne=ne, backend="object", **det)
            if ner != (not eqr):
                viol("ne-not-negation-of-eq", cell, eq=eqr, ne=ner, backend="object", swapped=True, **det)
            if eq != eqr:
                viol("eq-not-symmetric", cell, ab=eq, ba=eqr, **det)
            if not (eq == eqm == eqn) or not (ne == nem == nen):
                viol("operator-method-numpy-disagree", cell, eq=[eq, eqm, eqn], ne=[ne, nem, nen], **det)
            if not (_b(A == A) and not _b(A != A) and _b(Bv == Bv)):
                viol("eq-not-reflexive", cell, **det)
            if same:
                exp_eq = all(x == y for x, y in zip(ca, cb))
                if eq != exp_eq:
                    viol("same-system-eq-is-not-all-coordinates-equal", cell, got=eq, expected=exp_eq, **det)
            # isclose family
            closes = []
            for rtol, atol in TOLS:
                try:
                    c = _b(A.isclose(Bv, rtol=rtol, atol=atol))
                    cpos = _b(A.isclose(Bv, rtol, atol))
                except Exception as e:
                    viol("exception-in-isclose backend=object", cell, exc=repr(e)[:300], **det)
                    closes.append(None)
                    continue
                res.evaluations += 2
                closes.append(c)
                if c != cpos:
                    viol("isclose-keyword-vs-positional-tolerances-differ", cell, rtol=rtol, atol=atol, **det)
                if eq and not c:
                    viol("eq-does-not-imply-isclose", cell, rtol=rtol, atol=atol, **det)
                if same:
                    _, exp_c = _expected_same_system(ca, cb, rtol, atol)
                    if exp_c is None:
                        res.count("skip_isclose_on_boundary")
                    elif c != exp_c:
                        viol("same-system-isclose-is-not-per-coordinate-tolerance", cell, got=c, expected=exp_c,
                             rtol=rtol, atol=atol, **det)
                if not _b(A.isclose(A, rtol=rtol, atol=atol)):
                    viol("isclose-not-reflexive", cell, rtol=rtol, atol=atol, **det)
            # monotone: TOLS pairs (i, j) with rtol_j >= rtol_i and atol_j >= atol_i
            for (i, (r1, a1)), (j, (r2, a2)) in itertools.permutations(enumerate(TOLS), 2):
                if r2 >= r1 and a2 >= a1 and closes[i] and closes[j] is False:
                    viol("isclose-stricter-when-tolerance-grows", cell, small=[r1, a1], large=[r2, a2], **det)
            res.cell(cellbase, pat.split(":")[0], "object")
            obj_results.append((pat, ca, cb, ma, mb, eq, ne, closes, pat.startswith("none") and len(shared) < len(ca)))
            if pi == 1 and s2 == R.SYSTEMS[dim][0]:
                res.sample({"systems": cellbase, "pattern": pat, "a": [repr(x) for x in ca], "b": [repr(x) for x in cb],
                            "eq": eq, "ne": ne, "isclose_by_tolerance": closes})

        # ---------------- arrays: element i of the array result == object result for pair i
        if not obj_results:
            continue
        rows_a = [o[1] for o in obj_results]
        rows_b = [o[2] for o in obj_results]
        exp_eq = [o[5] for o in obj_results]
        exp_ne = [o[6] for o in obj_results]
        # the same vector written in two coordinate systems compares equal or not depending on the last bit of a
        # conversion; Python floats and NumPy loops may round that bit differently (found by the thorough tier, one element
        # in 240): array-vs-object agreement is not judged at those elements for exact comparisons
        fragile = {i for i, o in enumerate(obj_results) if o[8]}
        n = len(rows_a)
        counts = [2, 0, n - 2] if n > 2 else [n]
        builders = {
            "numpy": lambda s, rows, m: B.mk_numpy_cls(s, rows, m),
            "awkward": lambda s, rows, m: B.mk_awk(s, rows, m and any(B.MOM_SPELL[x] for x in R.field_names(s)), counts=counts),
            "awkwardflat": lambda s, rows, m: B.mk_awk(s, rows, m and any(B.MOM_SPELL[x] for x in R.field_names(s))),
        }
        # arrays that carry non-coordinate fields (charge, weight) which differ between the two sides: only coordinates
        # take part in a comparison
        side = [0]

        def np_extra(s, rows, m):
            import vector
            names = R.field_names(s)
            raw = numpy.zeros(len(rows), dtype=[(nm, numpy.float64) for nm in names] + [("charge", numpy.int64), ("weight", numpy.float64)])
            for i_, nm in enumerate(names):
                raw[nm] = [row[i_] for row in rows]
            side[0] += 1
            raw["charge"] = numpy.arange(len(rows)) % 3 + 10 * (side[0] % 2)
            raw["weight"] = 0.5 + side[0] % 2
            return raw.view(getattr(vector, ("MomentumNumpy" if m else "VectorNumpy") + f"{len(s) + 1}D"))

        def ak_extra(s, rows, m):
            side[0] += 1
            return B.mk_awk(s, rows, m and any(B.MOM_SPELL[x] for x in R.field_names(s)), counts=counts,
                            extra={"charge": numpy.arange(len(rows)) % 3 + 10 * (side[0] % 2)})
        builders["numpy+extra"] = np_extra
        builders["awkward+extra"] = ak_extra
        pairings = [("numpy", "numpy"), ("awkward", "awkward"), ("numpy", "awkwardflat"), ("awkwardflat", "numpy")]
        combos = list(itertools.product(pairings, ((True, False), (False, True))))
        combos += list(itertools.product([("numpy+extra", "numpy+extra"), ("awkward+extra", "awkward+extra"), ("numpy", "numpy")],
                                         ((True, True), (False, False))))
        combos += [(("numpy+extra", "numpy"), (False, False)), (("numpy", "numpy+extra"), (True, True))]
        for (ba, bb), (fa, fb) in combos:
            try:
                XA = builders[ba](s1, rows_a, fa)
                XB = builders[bb](s2, rows_b, fb)
            except Exception as e:
                res.inconc(f"cannot build arrays {ba}/{bb}: {e!r}"[:200])
                continue
            cell = f"{cellbase}|{ba}x{bb}|{int(fa)}{int(fb)}"

            def flat(x):
                if isinstance(x, ak.Array):
                    return [bool(v) for v in ak.to_list(ak.flatten(x, axis=None))]
                return [bool(v) for v in numpy.asarray(x).reshape(-1)]
            forms = {"==": lambda: XA == XB, "equal": lambda: XA.equal(XB), "numpy.equal": lambda: numpy.equal(XA, XB)}
            nforms = {"!=": lambda: XA != XB, "not_equal": lambda: XA.not_equal(XB), "numpy.not_equal": lambda: numpy.not_equal(XA, XB)}
            for group, fs, exp in (("eq", forms, exp_eq), ("ne", nforms, exp_ne)):
                for fname, f in fs.items():
                    try:
                        got = flat(f())
                    except Exception as e:
                        viol(f"exception-in-array-equality form={fname} pairing={ba}x{bb}", cell, exc=repr(e)[:300])
                        continue
                    res.evaluations += n
                    if len(got) == len(exp) and fragile:
                        res.count("array_vs_object_not_judged_on_rounding_knife_edge", len(fragile))
                        got = [e_ if i in fragile else g for i, (g, e_) in enumerate(zip(got, exp))]
                    if got != exp:
                        bad = [i for i, (g, e_) in enumerate(zip(got, exp)) if g != e_] if len(got) == len(exp) else "length"
                        viol(f"array-{group}-differs-from-object form={fname} pairing={ba}x{bb}", cell, got=got, expected=exp,
                             where=bad, patterns=[o[0] for o in obj_results])
            for ti, (rtol, atol) in enumerate(TOLS):
                exp_c = [o[7][ti] for o in obj_results]
                if any(c is None for c in exp_c):
                    continue
                cf = {"isclose": lambda: XA.isclose(XB, rtol=rtol, atol=atol)}
                if ba.startswith("numpy") and bb.startswith("numpy"):
                    cf["numpy.isclose"] = lambda: numpy.isclose(XA, XB, rtol=rtol, atol=atol)
                for fname, f in cf.items():
                    try:
                        got = flat(f())
                    except Exception as e:
                        viol(f"exception-in-array-isclose form={fname} pairing={ba}x{bb}", cell, exc=repr(e)[:300])
                        continue
                    res.evaluations += n
                    got_raw = list(got)
                    if len(got) == len(exp_c) and fragile and rtol < 1e-13 and atol < 1e-13:
                        got = [e_ if i in fragile else g for i, (g, e_) in enumerate(zip(got, exp_c))]
                    if got != exp_c:
                        viol(f"array-isclose-differs-from-object form={fname} pairing={ba}x{bb}", cell, got=got, expected=exp_c,
                             rtol=rtol, atol=atol)
                    af = {"allclose": lambda: XA.allclose(XB, rtol=rtol, atol=atol)}
                    if ba.startswith("numpy") and bb.startswith("numpy"):
                        af["numpy.allclose"] = lambda: numpy.allclose(XA, XB, rtol=rtol, atol=atol)
                    if fname == "isclose":
                        for an, f2 in af.items():
                            try:
                                ga = bool(f2())
                            except Exception as e:
                                viol(f"exception-in-allclose form={an} pairing={ba}x{bb}", cell, exc=repr(e)[:300])
                                continue
                            if ga != all(got_raw):   # all() of the same backend's own isclose
                                viol(f"allclose-is-not-all-isclose form={an} pairing={ba}x{bb}", cell, got=ga, isclose=got_raw)
            res.cell(cellbase, "arrays", f"{ba}x{bb}")
        # ---------------- an object broadcast against an array
        o = obj_results[0]
        A0 = B.mk_obj(s1, o[1], o[3])
        for bb in ("numpy", "awkward"):
            try:
                XB = builders[bb](s2, rows_b, False)
                got = XB == A0
                got2 = A0 == XB
                gn = XB != A0
                flatf = (lambda x: [bool(v) for v in ak.to_list(ak.flatten(x, axis=None))]) if bb == "awkward" else (lambda x: [bool(v) for v in numpy.asarray(x).reshape(-1)])
                g1, g2, g3 = flatf(got), flatf(got2), flatf(gn)
            except Exception as e:
                viol(f"exception-object-vs-array pairing=objectx{bb}", cellbase, exc=repr(e)[:300])
                continue
            exp = [bool(B.mk_obj(s2, rb, False) == A0) for rb in rows_b]
            if 0 in fragile:   # row 0 is A0's own vector written in the other system: a rounding knife edge (see above)
                g1[0] = g2[0] = exp[0]
                g3[0] = not exp[0]
            if bb == "numpy":
                # numpy.isclose / numpy.allclose dispatch through the array even when the object comes first:
                # the tolerance rule is asymmetric (rtol * |other|), so operand order matters
                for rtol, atol in TOLS:
                    want_ab = [bool(A0.isclose(B.mk_obj(s2, rb, False), rtol=rtol, atol=atol)) for rb in rows_b]
                    want_ba = [bool(B.mk_obj(s2, rb, False).isclose(A0, rtol=rtol, atol=atol)) for rb in rows_b]
                    try:
                        got_ab = flatf(numpy.isclose(A0, XB, rtol=rtol, atol=atol))
                        got_ba = flatf(numpy.isclose(XB, A0, rtol=rtol, atol=atol))
                        all_ab = bool(numpy.allclose(A0, XB, rtol=rtol, atol=atol))
                    except Exception as e:
                        viol("exception-in-numpy.isclose pairing=objectxnumpy", cellbase, exc=repr(e)[:300])
                        break
                    res.evaluations += 3 * n
                    if all_ab != all(got_ab):
                        viol("numpy.allclose-is-not-all-isclose pairing=objectxnumpy", cellbase, rtol=rtol, atol=atol, got=all_ab)
                    if 0 in fragile and rtol < 1e-13 and atol < 1e-13:
                        got_ab[0], got_ba[0] = want_ab[0], want_ba[0]
                    if got_ab != want_ab or got_ba != want_ba:
                        viol("numpy.isclose-differs-from-method pairing=objectxnumpy", cellbase, rtol=rtol, atol=atol,
                             got=[got_ab, got_ba], expected=[want_ab, want_ba])
            res.evaluations += 3 * n
            if g1 != exp or g2 != exp:
                viol(f"broadcast-eq-differs-from-object pairing=objectx{bb}", cellbase, got=[g1, g2], expected=exp)
            if g3 != [not e_ for e_ in exp]:
                viol("ne-not-negation-of-eq", cellbase, backend=f"objectx{bb}", got=g3, eq=exp)
            res.cell(cellbase, "broadcast", bb)
    return res


def finalize(total, tier, seed):
    pairs = {tuple(c.split("|")[:2]) for c in total.cells if c.endswith("|object")}
    want = 4 + 36 + 144
    if len(pairs) < want:
        total.inconc(f"only {len(pairs)} of {want} system pairs compared on the object backend")
    subset = {tuple(c.split("|")[:2]) for c in total.cells if "|subset|" in c or "|one|" in c}
    if len(subset) < want:
        total.inconc(f"'differs in a proper subset' cases missing for {want - len(subset)} system pairs")
    return {"system_pairs": len(pairs), "tolerance_grid": TOLS}
