"""C02 — every operation computes its documented mathematical definition.

Reference-model monitor: (a) the real compute code at 60 digits against an
independent mpmath model written from the documentation, on every signature;
(b) float64 object vectors and NumPy vector arrays against the same model
evaluated on the *exact binary inputs*, on the well-conditioned core
(DESIGN §3 C02, §2.5).
"""
from __future__ import annotations

import mpmath
from mpmath import mpf

import numpy

from .. import backends as B
from .. import catalog as C
from .. import sweep
from .. import engine as E
from .. import gen
from .. import knownmech
from .. import refmodel as R
from .. import workload as W
from ..verdict import Result

LEVEL = "exploration"
RULE = ("every catalogued operation with a documented definition x every coordinate signature: "
        "(a) 60-digit object vectors vs an independent mpmath model; (b) float64 object vectors and "
        "NumPy arrays vs the model on the exact binary inputs (well-conditioned core). A cell is "
        "(operation, dim, signature, backend, stratum) and is non-trivial when the definition is finite "
        "for the operands, they are representable, and a numeric comparison took place")
ASSUMPTIONS = [
    "the reference model encodes the reading of docs/index.md and the Protocol docstrings given in DESIGN §2.2 "
    "(Euler rule R_a(-psi) R_b(-theta) R_c(-phi); ROOT quaternion q v q*; active boosts)",
    "where the documentation is silent (unit of the zero vector, sign of tau for spacelike sums, ...) nothing is judged",
    "float64 comparisons are restricted to the well-conditioned core; tolerance 1e-9 relative to the natural scale",
]
MP_ACCEPT, MP_VIOLATE = mpf(10) ** -35, mpf(10) ** -20
F_ACCEPT = mpf(10) ** -9
MARGIN = mpf(10) ** -25
FMARGIN = mpf(10) ** -6
DRAWS_MP = {"quick": 14, "thorough": 800}
DRAWS_F = {"quick": 8, "thorough": 300}
NSHARDS = {"quick": 32, "thorough": 64}
SHARD_TIMEOUT = {"quick": 900, "thorough": 7200}

NO_REF = {"equal", "not_equal", "isclose"}  # C12 judges these


def plan(tier, seed):
    items = [it for it in W.cost_table() if it[0] not in NO_REF]
    return [{"i": i, "items": b} for i, b in enumerate(W.pack(items, NSHARDS[tier]))]


def _expected_partial(op, self_l, args, f64):
    """documented exception: act on the k-dim part, keep the higher *stored* coordinates"""
    k = op.partial
    coords = self_l.f64()[0] if f64 else self_l.exact_coords()
    low = R.from_coords(self_l.system[: k - 1], coords[:k])
    a = [E.ref_arg(x, f64) for x in args]
    new_low = op.ref(low, *a)
    return new_low


def _judge(op, dim, res, backend, cellkey, label, self_l, args, got, f64):
    """compare one canonical result with the reference; returns nothing, records in res"""
    try:
        if op.partial and op.partial < dim:
            exp = _expected_partial(op, self_l, args, f64)
        else:
            exp = E.eval_ref(op, self_l, args, f64)
    except R.Undefined:
        res.count("skip_definition_not_finite")
        return
    except (ZeroDivisionError, ValueError):
        res.count("skip_definition_not_finite")
        return
    accept = F_ACCEPT if f64 else MP_ACCEPT
    violate = F_ACCEPT if f64 else MP_VIOLATE
    unit = E.unit_scale(self_l, args, f64)
    gain = E.arg_gain(op, args)
    if op.result == "bool":
        if op.predicate_margin is not None:
            try:
                m = op.predicate_margin(E.ref_arg(self_l, f64), *[E.ref_arg(a, f64) for a in args])
            except R.Undefined:
                res.count("skip_predicate_undefined")
                return
            if m < (FMARGIN if f64 else MARGIN):
                res.count("skip_predicate_on_boundary")
                return
        if bool(got) != bool(exp):
            res.violation(f"C02/predicate-wrong op={op.name} dim={dim} backend={backend}",
                          {"cell": cellkey, "got": got, "expected": exp, "label": label,
                           "self": self_l.describe(), "args": [E.describe_arg(a) for a in args]})
        res.cell(cellkey, backend, label.split("/")[0])
        return
    if op.result == "vec":
        expdim = op.resdim(dim) if op.resdim else dim
        if got.dim != expdim:
            res.violation(f"C02/result-dimension op={op.name} dim={dim} backend={backend}",
                          {"cell": cellkey, "got": got.dim, "expected": expdim})
            return
        if op.name == "rotate_quaternion" and dim == 4 and abs(sum(q * q for q in args[0]) - 1) > mpf(10) ** -30:
            # a non-unit quaternion scales the spatial part (ROOT's documented behaviour); it is not a
            # rotation, so what happens to a tau-stored time is not defined: judge the spatial part only
            err = E.rel_error(op, R.project(got.rv, 3), R.project(exp, 3), unit, gain)
        elif op.partial and op.partial < dim:
            gp = R.project(got.rv, op.partial)
            err = E.rel_error(op, gp, exp, unit, gain)
            # the untouched stored coordinates are C01/C04's bit-for-bit business; here: the value
        else:
            if not R.representable(exp, got.system, (FMARGIN if f64 else MARGIN) * unit):
                res.count("skip_result_not_representable")
                return
            if got.system[-1] == "tau" and f64 and abs(exp.tau2) < mpf("0.02") * max(exp.t2, mpf(1) / 10**300):
                res.count("skip_ill_conditioned_tau_result")
                return
            if len(got.system) >= 2 and got.system[1] in ("theta", "eta") and f64 and exp.rho < mpf("0.01") * exp.mag:
                res.count("skip_ill_conditioned_polar_result")
                return
            err = E.rel_error(op, got, exp, unit, gain)
    else:
        if not mpmath.isfinite(exp):
            res.count("skip_definition_not_finite")
            return
        err = E.rel_error(op, got, exp, unit, gain) / E.cond_gain(op, self_l, args, accept, f64)
    if err > violate:
        km = knownmech.classify(op, self_l, args, got_scalar_is_zero=(op.result != "vec" and got == 0))
        if km:
            res.violation("C02/" + km, {"cell": cellkey, "backend": backend, "self": self_l.describe(),
                                        "got": _show(got), "expected": _show(exp)})
            return
    res.err(("f64:" if f64 else "mp:") + op.group, err)
    if f64 and op.result in ("scalar", "angle") and backend == "object" and res.counters.get("cond_estimates", 0) < 4000:
        # how many "rounding errors" is the observed error?  condition estimate by one-ulp finite differences of the
        # reference model in every stored input coordinate (evidence only; the verdict uses the fixed 1e-9 tolerance)
        try:
            eps = mpf(2) ** -52
            base = E.eval_ref(op, self_l, args, True)
            sens = abs(base) * eps
            operands = [self_l] + [a for a in args if isinstance(a, E.LVec)]
            if "parallel" in label:
                raise ValueError("collinear operands: first-order differences say nothing about arccos at +-1")
            if any(c == 0 for l in operands for c in l.f64()[0]):
                raise ValueError("a stored coordinate is exactly zero: one-ulp differences say nothing about the condition")
            for l in operands:
                c0 = list(l.f64()[0])
                for i, c in enumerate(c0):
                    pert = list(c0)
                    pert[i] = float(c) * (1 + 2.0 ** -50) if c != 0 else 2.0 ** -1000
                    l2 = E.LVec(R.from_coords(l.system, pert), l.system, l.momentum)
                    a2 = [l2 if a is l else a for a in args]
                    val = E.eval_ref(op, l2 if l is self_l else self_l, a2, False)
                    sens += abs(val - base) / 4
            if sens > 0:
                res.err("f64:error_in_units_of_(eps x condition):" + op.group, abs(got - exp) / sens)
                res.count("cond_estimates")
        except Exception:
            pass
    if err > violate:
        res.violation(f"C02/value-wrong op={op.name} dim={dim} backend={backend}",
                      {"cell": cellkey, "rel_error": mpmath.nstr(err, 5), "label": label,
                       "self": self_l.describe(), "args": [E.describe_arg(a) for a in args],
                       "got": _show(got), "expected": _show(exp)})
    elif err > accept:
        res.inconc(f"grey-band discrepancy {mpmath.nstr(err, 5)} at {cellkey} ({backend})")
    res.cell(cellkey, backend, label.split("/")[0])


def _bits_of(x):
    if isinstance(x, E.VecResult):
        return (x.system, x.momentum, tuple(mpmath.nstr(c, 40) for c in x.rv.comps()))
    return repr(x)


def _show(x):
    if hasattr(x, "stored"):
        return {"class": x.cls, "system": R.sysname(x.system), "stored": [mpmath.nstr(getattr(c, "v", c), 25) for c in x.stored]}
    if isinstance(x, R.RV):
        return repr(x)
    if isinstance(x, bool):
        return x
    return mpmath.nstr(x, 30)


def _f64_ok(op, draw):
    """extra float64-core conditions per operation (DESIGN §2.5)"""
    rv = draw.self_rv
    try:
        if op.name in ("rapidity", "deltaRapidityPhi", "deltaRapidityPhi2"):
            vs = [rv] + [a for k, a in draw.args if k == "vec"]
            return all(v.tau2 > mpf("0.05") * v.t2 and v.t > 0 for v in vs)
        if op.name in ("gamma", "unit") and rv.dim == 4:
            return rv.tau2 > mpf("0.05") * rv.t2 and rv.t > 0
        if op.name in ("beta", "to_beta3") or op.group == "boost":
            return rv.t > 0 if op.name in ("beta", "to_beta3") else True
    except Exception:
        return False
    return True


def _mutated_arguments(op, dim, seed, res):
    """(f) an argument *object* (matrix mapping, array of angles / factors / velocities) that the caller changes in place
    between two calls: the second call computes with the new content, exactly as a call with a fresh object of that
    content does (nothing may be remembered by the identity of an argument)"""
    import numpy

    from .. import backends as B

    kinds = [k for k in op.args if k in ("mat2", "mat3", "mat4", "angle", "factor", "beta", "gamma")]
    if not kinds or any(k == "vec" for k in op.args):
        return
    r = gen.rng(seed, "C02mut", op.name, dim)
    system = R.SYSTEMS[dim][r.randrange(len(R.SYSTEMS[dim]))]
    for rep in range(2):
        d1 = W.make_draw(op, dim, r, core=True, mp=False, momentum=op.momentum_only or rep == 0)
        d2 = W.make_draw(op, dim, r, core=True, mp=False, momentum=d1.momentum)
        try:
            self_l, a1 = W.instantiate(d1, system, None, "zxz" if "order" in op.args else None)
            _, a2 = W.instantiate(d2, system, None, "zxz" if "order" in op.args else None)
            self_l.f64()
        except R.NotRepresentable:
            continue
        gi = next(j for j, k in enumerate(op.args) if k in kinds)
        for backend in ("object", "numpy"):
            if op.args[gi].startswith("mat"):
                v = E.mat_obj(self_l) if backend == "object" else B.mk_numpy_cls(self_l.system, [self_l.f64()[0]] * 3, self_l.momentum)
                shared = {k: float(x) for k, x in a1[gi].items()}
                new = {k: float(x) for k, x in a2[gi].items()}
                mutate = lambda: [shared.__setitem__(k, new[k]) for k in new]  # noqa: E731
                fresh = dict(new)
            else:
                if backend == "object":
                    continue  # plain numbers are immutable
                v = B.mk_numpy_cls(self_l.system, [self_l.f64()[0]] * 3, self_l.momentum)
                f1, f2 = float(a1[gi]), float(a2[gi])
                shared = numpy.array([f1, f1 * 0.5 if op.args[gi] != "gamma" else 1 + (f1 - 1) * 0.5, f1])
                newv = numpy.array([f2, f2 * 0.5 if op.args[gi] != "gamma" else 1 + (f2 - 1) * 0.5, f2])
                mutate = lambda: shared.__setitem__(slice(None), newv)  # noqa: E731
                fresh = newv.copy()
            others = [E._conv_scalar(x, float) for x in a1]
            res.evaluations += 1
            try:
                args_shared = list(others)
                args_shared[gi] = shared
                first = E.canon(op, op.call(v, *args_shared)) if backend == "object" else op.call(v, *args_shared)
                mutate()
                second = op.call(v, *args_shared)
                args_fresh = list(others)
                args_fresh[gi] = fresh
                want = op.call(v, *args_fresh)
            except Exception as e:
                res.count("mutated_argument_call_raised:" + type(e).__name__)
                continue
            if backend == "object":
                same = _bits_of(E.canon(op, second)) == _bits_of(E.canon(op, want))
            else:
                sa, sb = B.stored_columns(second), B.stored_columns(want)
                same = sa[1] == sb[1] and [[B.bits(float(x)) for x in c] for c in sa[2]] == [[B.bits(float(x)) for x in c] for c in sb[2]]
            if not same:
                res.violation(f"C02/result-computed-from-an-earlier-content-of-a-mutated-argument op={op.name}",
                              {"backend": backend, "system": R.sysname(system), "argument": op.args[gi],
                               "history": "call(arg); arg changed in place; call(arg) again vs call(fresh object with the new content)"})
            res.cell("mutated-argument", op.name, dim, backend)


def run_shard(spec, tier, seed):
    res = Result()
    if spec.get("i") == 0:
        # ---- (e) the documented signatures (parameter names, order, kinds, defaults) of all public methods
        drift = C.signature_drift()
        res.evaluations += 1
        res.count("public_method_signatures_compared", sum(len(v) for v in C._PINNED.values()))
        for cname, name, what in drift:
            res.violation(f"C02/documented-signature-changed method={name}", {"class": cname, "method": name, "what": what})
        res.cell("signatures", "all")
    for opname, dim in spec["items"]:
        op = C.OPS[opname]
        odims = op.other_dims(dim) if op.other_dims else (None,)
        _mutated_arguments(op, dim, seed, res)
        # ---- (a) 60-digit formula identity, every signature ---------------------------
        r = gen.rng(seed, "C02mp", opname, dim)
        for di in range(DRAWS_MP[tier]):
            draw = W.make_draw(op, dim, r, core=False, mp=True, odim=odims[di % len(odims)])
            for s_self, s_other, order in W.systems_for(draw):
                try:
                    self_l, args = W.instantiate(draw, s_self, s_other, order, flip_momentum=(di % 3 == 1),
                                                 upper=(di % 4 == 3))
                except R.NotRepresentable:
                    res.count("skip_operand_not_representable")
                    continue
                res.evaluations += 1
                cellkey = f"{op.name}|{dim}|{R.sysname(s_self)}|{R.sysname(s_other) if s_other else '-'}|{order or '-'}"
                try:
                    got = E.eval_mp(op, self_l, args)
                except R.NotRepresentable:
                    res.count("skip_result_not_representable")  # the monitor's own readout (zero vector in theta / eta storage)
                    continue
                except Exception as e:
                    res.violation(f"C02/exception op={op.name} dim={dim} backend=mp",
                                  {"cell": cellkey, "exc": f"{type(e).__name__}: {e}"[:300],
                                   "self": self_l.describe(), "args": [E.describe_arg(a) for a in args]})
                    continue
                _judge(op, dim, res, "mp", cellkey, draw.label, self_l, args, got, False)
            if di == 0:
                res.sample({"backend": "mp", "op": op.name, "dim": dim, "label": draw.label,
                            "self": self_l.describe(), "args": [E.describe_arg(a) for a in args],
                            "result": _show(got)})
        # ---- (b) float64 object + NumPy on the exact binary inputs, core operands -------
        r = gen.rng(seed, "C02f", opname, dim)
        n = DRAWS_F[tier]
        draws = []
        guard = 0
        while len(draws) < n and guard < 20 * n:
            guard += 1
            d = W.make_draw(op, dim, r, core=True, mp=False, odim=odims[len(draws) % len(odims)],
                            momentum=op.momentum_only or (len(draws) % 2 == 0))
            if _f64_ok(op, d):
                draws.append(d)
        if not draws:
            res.inconc(f"no float64-core draws for {op.name}/{dim}")
            continue
        # group draws by the dimension of the vector argument so that arrays are homogeneous
        by_od = {}
        for d in draws:
            by_od.setdefault(d.odim, []).append(d)
        for od, ds in by_od.items():
            mom = ds[0].momentum
            for d in ds:
                d.momentum = mom
            for s_self, s_other, order in W.systems_for(ds[0]):
                cases = []
                for d in ds:
                    try:
                        cases.append((d,) + W.instantiate(d, s_self, s_other, order))
                    except R.NotRepresentable:
                        res.count("skip_operand_not_representable")
                if not cases:
                    continue
                cellkey = f"{op.name}|{dim}|{R.sysname(s_self)}|{R.sysname(s_other) if s_other else '-'}|{order or '-'}"
                for d, self_l, args in cases:
                    res.evaluations += 1
                    try:
                        got = E.eval_obj(op, self_l, args)
                    except R.NotRepresentable:
                        res.count("skip_result_not_representable")  # the monitor's own readout (zero vector in theta / eta storage)
                        continue
                    except Exception as e:
                        res.violation(f"C02/exception op={op.name} dim={dim} backend=object",
                                      {"cell": cellkey, "exc": f"{type(e).__name__}: {e}"[:300],
                                       "self": self_l.describe(), "args": [E.describe_arg(a) for a in args]})
                        continue
                    _judge(op, dim, res, "object", cellkey, d.label, self_l, args, got, True)
                # ---- (c) the documented parameter names: the same call with every argument passed by keyword
                d, self_l, args = cases[0]
                try:
                    vobj = E.mat_obj(self_l)
                    aobj = [E.mat_obj(a) if isinstance(a, E.LVec) else E._conv_scalar(a, float) for a in args]
                    kw = C.keyword_call(op, vobj, aobj)
                    if kw is not None:
                        res.evaluations += 1
                        pos = E.canon(op, op.call(vobj, *aobj))
                        try:
                            kres = E.canon(op, kw())
                        except Exception as e:
                            res.violation(f"C02/keyword-form-raises op={op.name}", {"cell": cellkey, "exc": f"{type(e).__name__}: {e}"[:200]})
                        else:
                            if _bits_of(pos) != _bits_of(kres):
                                res.violation(f"C02/keyword-form-differs-from-positional op={op.name}",
                                              {"cell": cellkey, "positional": _show(pos), "keyword": _show(kres)})
                            res.cell("keyword-form", cellkey)
                except Exception as e:
                    res.count("keyword_form_not_evaluated:" + type(e).__name__)
                # ---- (d) integer-valued operands held as Python ints / NumPy integer and float32 scalars: same definition
                try:
                    il = sweep.int_lvec(self_l)
                    fobj = op.call(E.mat_obj(il), *aobj)
                    want = E.canon(op, fobj)
                    unit_i = E.unit_scale(il, args, True)
                    for kname, conv in (("int", int), ("numpy.int64", numpy.int64), ("numpy.float32", numpy.float32), ("numpy.float64", numpy.float64)):
                        res.evaluations += 1
                        # float32 scalars compute in float32: judged at its precision (with cancellation head-room)
                        tol_i = mpf(10) ** (-3 if kname == "numpy.float32" else -6)
                        coords = [conv(int(c)) for c in il.exact_coords()]
                        vi = B.obj_class(len(il.system) + 1, il.momentum)(**B._coord_objs(il.system, coords))
                        try:
                            got_i = E.canon(op, op.call(vi, *aobj))
                        except Exception as e:
                            res.violation(f"C02/integer-valued-operand-raises op={op.name} scalar-type={kname}",
                                          {"cell": cellkey, "exc": f"{type(e).__name__}: {e}"[:200], "coords": [repr(c) for c in coords]})
                            continue
                        if op.result == "bool":
                            same = bool(got_i) == bool(want)
                        elif op.result == "vec":
                            same = got_i.system == want.system and all(mpmath.isfinite(c) for c in want.rv.comps()) is not None and \
                                (not all(mpmath.isfinite(c) for c in want.rv.comps()) or E.rel_error(op, got_i, want.rv, unit_i) <= tol_i)
                        else:
                            same = (not mpmath.isfinite(want)) or (op.result == "angle" and R.angdiff(got_i, want) <= tol_i) or \
                                (op.result != "angle" and E.rel_error(op, got_i, want, unit_i) <= tol_i)
                        if not same:
                            res.violation(f"C02/integer-valued-operand-gives-different-result op={op.name} scalar-type={kname}",
                                          {"cell": cellkey, "coords": [repr(c) for c in coords], "with_floats": _show(want), "got": _show(got_i)})
                        res.cell("scalar-type:" + kname, cellkey)
                except R.NotRepresentable:
                    res.count("skip_integer_operand_not_representable")
                except Exception as e:
                    res.count("integer_operand_reference_not_evaluated:" + type(e).__name__)
                try:
                    gots, _, _ = E.eval_numpy(op, [c[1] for c in cases], [c[2] for c in cases])
                except R.NotRepresentable:
                    res.count("skip_result_not_representable")  # the monitor's own readout (zero vector in theta / eta storage)
                    continue
                except Exception as e:
                    res.violation(f"C02/exception op={op.name} dim={dim} backend=numpy",
                                  {"cell": cellkey, "exc": f"{type(e).__name__}: {e}"[:300],
                                   "self": cases[0][1].describe(), "args": [E.describe_arg(a) for a in cases[0][2]]})
                    continue
                for (d, self_l, args), got in zip(cases, gots):
                    res.evaluations += 1
                    _judge(op, dim, res, "numpy", cellkey, d.label, self_l, args, got, True)
    return res


def finalize(total, tier, seed):
    missing = []
    ops_seen = {c.split("|")[0] for c in total.cells}
    for name, op in C.OPS.items():
        if name in NO_REF:
            continue
        if name not in ops_seen:
            missing.append(name)
    if missing:
        total.inconc(f"operations never compared with the reference: {missing[:8]}")
    backends = {c.split("|")[5] for c in total.cells if len(c.split("|")) > 5}
    for b in ("mp", "object", "numpy"):
        if b not in backends:
            total.inconc(f"backend {b} never compared")
    return {"operations_with_reference": len(C.OPS) - len(NO_REF), "operations_compared": len(ops_seen),
            "tolerance": {"mp_accept": "1e-35", "mp_violate": "1e-20", "float64": "1e-9 * natural scale"}}
