"""C17 — reductions of vector arrays are component-wise Cartesian reductions.

numpy.sum / .sum() / numpy.count_nonzero on NumPy vector arrays (1-D, 2-D, 3-D,
every valid axis incl. tuples, keepdims) and ak.sum / ak.count /
ak.count_nonzero on jagged Awkward arrays (empty lists, missing lists, depth 3,
every valid axis, keepdims, mask_identity), in every coordinate system,
dimension and flavor.  Oracle: the same plain reducer applied to the Cartesian
components of the elements as computed element-wise by the object backend
(DESIGN §3 C17).
"""
from __future__ import annotations

import itertools

import numpy

from .. import awk
from .. import backends as B
from .. import gen
from .. import refmodel as R
from ..engine import LVec
from ..verdict import Result

LEVEL = "exploration"
AWKWARD_REGISTRATION_MIX = True
REPS = {"quick": 1, "thorough": 10}
RULE = ("20 coordinate systems x 2 flavors x NumPy shapes {(n,), (a,b), (a,b,c), (0,), (a,0)} x axis in {None, each axis, "
        "negative axes, tuples} x keepdims, and Awkward layouts {jagged with empty lists, with missing lists, depth 3} x "
        "flat, missing elements, regular, one list, physical layout twins} x every valid axis (positive and negative) x keepdims x mask_identity; integer-valued Cartesian storage compared exactly, everything else at "
        "1e-9 of the scale. A cell is (reducer, backend, system, shape/layout, axis, options), non-trivial when the reduction "
        "returned and every Cartesian component was compared with the component-wise reduction of the object-backend values")
ASSUMPTIONS = [
    "the component-wise oracle uses numpy.sum / ak.sum of the plain component arrays with the same axis/keepdims/mask_identity",
    "element Cartesian components come from the object backend (x, y, z, t accessors of each element)",
]
SHARD_TIMEOUT = {"quick": 900, "thorough": 7200}
TOL = 1e-9


def plan(tier, seed):
    return [{"system": list(s), "mom": m} for s in R.ALL_SYSTEMS for m in (False, True)]


def _rows(r, system, n, integer=False, zeros=False):
    dim = len(system) + 1
    ls, rows = [], []
    while len(rows) < n:
        if integer and system in (("xy",), ("xy", "z"), ("xy", "z", "t")):
            comps = [float(r.randint(-9, 9)) for _ in range(dim)]
            rows.append(tuple(comps))
            continue
        rv, _ = gen.vec4(r, core=True, forward=True) if dim == 4 else gen.vec(r, dim, core=True)
        try:
            l = LVec(rv, system, False)
            rows.append(l.f64()[0])
        except R.NotRepresentable:
            pass
    if zeros:
        # elements that are the zero vector, and ones where only z or only t is non-zero (Cartesian storage only)
        if system[0] == "xy" and (dim < 3 or system[1] == "z") and (dim < 4 or system[2] == "t"):
            z = [0.0] * dim
            rows[0] = tuple(z)
            if dim >= 3:
                rows[1] = tuple([0.0, 0.0, 2.5] + ([0.0] if dim == 4 else []))
            if dim == 4:
                rows[2] = (0.0, 0.0, 0.0, 1.5)
                if n > 4:
                    # non-zero *lightlike* elements: their Minkowski norm is zero, they are not the zero vector
                    rows[3] = (3.0, 4.0, 0.0, 5.0)
                    rows[4] = (0.0, 0.0, -2.5, 2.5)
        else:
            if dim == 4 and system[2] == "tau" and n > 4:
                rows[3] = tuple(list(rows[3][:3]) + [0.0])   # massless, stored with tau = 0
                rows[4] = tuple(list(rows[4][:3]) + [-0.0])
            # the zero vector as it looks in this storage: zero lengths, *arbitrary* angles / pseudorapidity (a zero
            # vector obtained by scaling with 0, or a track with pt = 0, keeps its phi and eta)
            def zero(phi, lon):
                row = [0.0, phi] if system[0] == "rhophi" else [0.0, 0.0]
                if dim >= 3:
                    row.append({"z": 0.0, "theta": lon, "eta": lon - 1.0}[system[1]])
                if dim == 4:
                    row.append(0.0)
                return tuple(row)
            rows[0] = zero(1.3, 0.7)
            if n > 5:
                rows[5] = zero(-2.5, 2.1)
            # zero transverse part but a non-zero vector (only with a stored z or t)
            if n > 2 and dim >= 3 and system[1] == "z":
                rows[2] = tuple(list(zero(0.4, 0.0)[:2]) + [-2.5] + ([0.0] if dim == 4 else []))
            if n > 1 and dim == 4 and system[2] == "t":
                rows[1] = tuple(list(zero(0.9, 1.1)[:3]) + [1.5])
    return rows


def _cartesian(system, rows, mom):
    """element-wise Cartesian components via the object backend"""
    dim = len(system) + 1
    comps = {"x": [], "y": []}
    if dim >= 3:
        comps["z"] = []
    if dim == 4:
        comps["t"] = []
    for row in rows:
        o = B.mk_obj(system, row, mom)
        for k in comps:
            comps[k].append(float(getattr(o, k)))
    return comps


def _close(a, b, exact, scale):
    a, b = numpy.asarray(a, dtype=float), numpy.asarray(b, dtype=float)
    if a.shape != b.shape:
        return False, f"shape {a.shape} != {b.shape}"
    if exact:
        ok = numpy.array_equal(a, b)
    else:
        ok = bool(numpy.all(numpy.abs(a - b) <= TOL * scale))
    return ok, f"max diff {numpy.max(numpy.abs(a - b)) if a.size else 0}"


def _masked_like(g, w):
    """(g with every exact zero that stands where w is None replaced by None, how many were replaced)"""
    changed = [0]

    def rec(a, b):
        if b is None and a is not None and not isinstance(a, list) and float(a) == 0.0:
            changed[0] += 1
            return None
        if isinstance(a, list) and isinstance(b, list) and len(a) == len(b):
            return [rec(x, y) for x, y in zip(a, b)]
        return a
    return rec(g, w), changed[0]


def run_shard(spec, tier, seed):
    import awkward as ak
    from vector._methods import Momentum

    res = Result()
    system = tuple(spec["system"])
    mom = spec["mom"]
    dim = len(system) + 1
    sn = R.sysname(system)
    fl = "mom" if mom else "gen"
    r = gen.rng(seed, "C17", sn, mom)
    cnames = ["x", "y", "z", "t"][:dim]

    def V(mech, **d):
        res.violation(f"C17/{mech}", {"system": sn, "flavor": fl, **d})

    # ------------------------------------------------------------------ NumPy
    shapes = [(6,), (2, 3), (2, 3, 2), (0,), (3, 0), (1, 4)]
    for shape in shapes:
        n = int(numpy.prod(shape))
        for integer in ((False, True) if system[0] == "xy" and (dim < 3 or system[1] == "z") and (dim < 4 or system[2] == "t") else (False,)):
            rows = _rows(r, system, n, integer=integer, zeros=not integer) if n else []
            arr = B.mk_numpy_cls(system, rows, mom, None) if n else B.mk_numpy_cls(system, [], mom)
            arr = arr.reshape(shape)
            # the same values in a different memory layout (rotating with shape and system): a strided view of a wider
            # array, Fortran order, big-endian columns
            lay = ("plain", "strided", "fortran", "big-endian")[(len(shape) + len(sn) + int(integer)) % 4] if n else "plain"
            if lay == "strided":
                wide = numpy.zeros(shape + (2,), dtype=arr.dtype).view(numpy.ndarray)
                wide[..., 0] = numpy.asarray(arr).view(numpy.ndarray)
                wide[..., 1] = numpy.array(tuple(-9.75 for _ in arr.dtype.names), dtype=arr.dtype)
                arr = wide[..., 0].view(type(arr))
            elif lay == "fortran":
                arr = numpy.asfortranarray(numpy.asarray(arr).view(numpy.ndarray)).view(type(arr))
            elif lay == "big-endian":
                be = numpy.zeros(shape, dtype=[(nm, ">f8") for nm in arr.dtype.names])
                for nm in arr.dtype.names:
                    be[nm] = numpy.asarray(arr).view(numpy.ndarray)[nm]
                arr = be.view(type(arr))
            res.count(f"numpy_layout:{lay}")
            cart = _cartesian(system, rows, mom)
            plain = {k: numpy.array(v, dtype=float).reshape(shape) for k, v in cart.items()}
            scale = max([1.0] + [abs(x) for v in cart.values() for x in v]) * max(n, 1)
            nd = len(shape)
            axes = [None] + list(range(nd)) + [-1] + ([(0, 1)] if nd >= 2 else []) + ([(0, 2), (-1, -2)] if nd == 3 else [])
            for axis, keep in itertools.product(axes, (False, True)):
                for form, f in (("numpy.sum", lambda: numpy.sum(arr, axis=axis, keepdims=keep)), (".sum()", lambda: arr.sum(axis=axis, keepdims=keep))):
                    res.evaluations += 1
                    cell = f"{sn}|{fl}|{shape}|axis={axis}|keepdims={keep}"
                    try:
                        out = f()
                    except Exception as e:
                        V(f"numpy-sum-raises form={form}", cell=cell, exc=f"{type(e).__name__}: {e}"[:200])
                        continue
                    if not hasattr(out, "azimuthal"):
                        V(f"numpy-sum-result-is-not-a-vector form={form}", cell=cell, type=type(out).__name__)
                        continue
                    if isinstance(out, Momentum) != mom:
                        V(f"numpy-sum-changes-flavor form={form}", cell=cell, type=type(out).__name__)
                    if B.stored_columns(out)[1] != (("xy",), ("xy", "z"), ("xy", "z", "t"))[dim - 2]:
                        V(f"numpy-sum-result-dimension-or-system form={form}", cell=cell, got=R.sysname(B.stored_columns(out)[1]))
                        continue
                    for k in cnames:
                        want = numpy.sum(plain[k], axis=axis, keepdims=keep)
                        got = numpy.asarray(getattr(out, k))
                        ok, why = _close(got, want, integer, scale)
                        if not ok:
                            V(f"numpy-sum-is-not-the-cartesian-component-sum form={form}", cell=cell, component=k, why=why,
                              got=repr(got)[:160], expected=repr(want)[:160])
                            break
                    res.cell("numpy.sum", cell, form, "int" if integer else "float")
            # count_nonzero
            for axis, keep in itertools.product([None] + list(range(nd)) + [-1], (False, True)):
                res.evaluations += 1
                cell = f"{sn}|{fl}|{shape}|axis={axis}|keepdims={keep}"
                nz = numpy.zeros(shape, dtype=bool)
                for k in cnames:
                    nz |= plain[k] != 0
                want = numpy.count_nonzero(nz, axis=axis, keepdims=keep)
                try:
                    got = numpy.count_nonzero(arr, axis=axis, keepdims=keep)
                except Exception as e:
                    V("numpy-count_nonzero-raises", cell=cell, exc=f"{type(e).__name__}: {e}"[:200])
                    continue
                if not numpy.array_equal(numpy.asarray(got), numpy.asarray(want)):
                    V("numpy-count_nonzero-is-not-the-number-of-nonzero-vectors", cell=cell, got=repr(got)[:120], expected=repr(want)[:120])
                res.cell("numpy.count_nonzero", cell)
            # unsupported arguments must raise rather than being ignored
            if n:
                for kw in (dict(where=numpy.ones(shape, bool)), dict(initial=1.0), dict(dtype=numpy.float32), dict(out=numpy.zeros(()))):
                    res.evaluations += 1
                    try:
                        numpy.sum(arr, **kw)
                        V("numpy-sum-ignores-unsupported-argument", argument=list(kw)[0], shape=list(shape))
                    except Exception:
                        res.cell("numpy.sum-rejects", sn, fl, list(kw)[0])
    # ------------------------------------------------------------------ narrow column dtypes (Cartesian storage): the sum is the
    # sum of the components as NumPy sums such a column on its own (integers are promoted, so nothing wraps around)
    if system[0] == "xy" and (dim < 3 or system[1] == "z") and (dim < 4 or system[2] == "t"):
        import vector

        cls_ = getattr(vector, ("MomentumNumpy" if mom else "VectorNumpy") + f"{dim}D")
        for dt in (numpy.int8, numpy.int16, numpy.int32, numpy.uint8, numpy.uint16, numpy.float32, numpy.float16):
            info = numpy.iinfo(dt) if numpy.dtype(dt).kind in "iu" else None
            shape = (3, 4)
            raw = numpy.zeros(shape, dtype=[(nm, dt) for nm in R.field_names(system)])
            for nm in R.field_names(system):
                if info is not None:
                    hi = int(info.max)
                    raw[nm] = numpy.array([[hi, hi - 1, hi // 2, 3], [hi, 1, 2, hi], [5, hi, hi, hi]], dtype=dt)
                else:
                    raw[nm] = numpy.array([[1.5, 2.25, 1000.5, 3], [0.125, 1, 2, 2048.5], [5, 7.5, 0.5, 0.25]], dtype=dt)
            arr = raw.view(cls_)
            for axis, keep in itertools.product((None, 0, 1, -1), (False, True)):
                res.evaluations += 1
                cell = f"{sn}|{fl}|{numpy.dtype(dt).name}|axis={axis}|keepdims={keep}"
                try:
                    out = numpy.sum(arr, axis=axis, keepdims=keep)
                    out2 = arr.sum(axis=axis, keepdims=keep)
                except Exception as e:
                    V("numpy-sum-raises form=narrow-dtype", cell=cell, exc=f"{type(e).__name__}: {e}"[:200])
                    continue
                for k in cnames:
                    want = numpy.sum(raw[k], axis=axis, keepdims=keep)
                    for o_ in (out, out2):
                        got = numpy.asarray(getattr(o_, k))
                        if got.shape != numpy.asarray(want).shape or not numpy.array_equal(got.astype(numpy.float64), numpy.asarray(want).astype(numpy.float64)):
                            V("numpy-sum-is-not-the-cartesian-component-sum form=narrow-dtype", cell=cell, component=k,
                              got=repr(got)[:120], expected=repr(want)[:120])
                            break
                res.cell("numpy.sum", cell, "narrow-dtype")
    # ------------------------------------------------------------------ Awkward
    n = 8
    idx = list(range(n))
    structs = {
        "jagged": [idx[:3], [], idx[3:4], idx[4:]],
        "missing_lists": [idx[:2], None, [], idx[2:]],
        "depth3": [[idx[:2], []], [], [idx[2:5], idx[5:]]],
        "all_empty": [[], []],
        "flat": idx,
        "missing_elements": [[idx[0], None, idx[1]], [None], [], idx[2:5] + [None], idx[5:]],
        "regular": [idx[:4], idx[4:]],
        "single_list": [idx],
    }
    # physical twins of the jagged / depth-3 / missing-list layouts (awk.relayout): the kinds rotate with the system
    salt = sum(map(ord, sn)) + (1 if mom else 0)
    twin_plan = [(("jagged", "depth3", "missing_lists")[(salt + i) % 3], awk.PHYSICAL[(salt + 3 * i) % len(awk.PHYSICAL)])
                 for i in range(3 if tier == "quick" else len(awk.PHYSICAL))]
    for base, kind in twin_plan:
        structs[f"{base}:physical={kind}"] = structs[base]
    for lname, struct in structs.items():
        rows = _rows(r, system, n, zeros=True)
        mom_eff = mom and any(B.MOM_SPELL[x] for x in R.field_names(system))
        for route in ("zip", "with_name", "Array"):
            if route == "Array" and lname in ("all_empty",):
                continue
            try:
                arr = awk.build(system, rows, mom_eff, struct, route=route, spelling=salt % 3, regular=(lname == "regular")) \
                    if lname != "all_empty" else awk.build(system, rows, mom_eff, [idx[:1], []], route=route)[[1, 1]]
                if ":physical=" in lname:
                    arr = awk.relayout(arr, lname.split("=")[1])
                    if arr is None:
                        res.count("twin_layout_not_applicable")
                        continue
            except Exception as e:
                res.inconc(f"cannot build awkward layout {lname}: {e!r}"[:200])
                continue
            cart = _cartesian(system, rows, mom_eff)
            if lname == "all_empty":
                plain = {k: ak.Array([[0.0][:0], [0.0][:0]]) for k in cart}
                plain = {k: ak.values_astype(ak.Array([[], []]), numpy.float64) for k in cart}
            else:
                plain = {k: ak.Array(awk.map_struct(struct, lambda i: cart[k][i])) for k in cart}
                if lname == "regular":
                    plain = {k: ak.to_regular(v, axis=1) for k, v in plain.items()}
            scale = max([1.0] + [abs(x) for v in cart.values() for x in v]) * n
            depth = arr.layout.purelist_depth
            for axis in list(range(depth)) + [-k_ for k_ in range(1, depth + 1)] + [None]:
                for keep, mask in itertools.product((False, True), (False, True)):
                    if axis is None and keep:
                        continue
                    res.evaluations += 1
                    cell = f"{sn}|{fl}|{lname}|{route}|axis={axis}|keepdims={keep}|mask_identity={mask}"
                    try:
                        out = ak.sum(arr, axis=axis, keepdims=keep, mask_identity=mask)
                    except Exception as e:
                        V("awkward-sum-raises", cell=cell, exc=f"{type(e).__name__}: {e}"[:200])
                        continue
                    if out is None and ak.sum(plain["x"], axis=axis, keepdims=keep, mask_identity=mask) is None:
                        res.cell("ak.sum", cell)  # masked identity of an empty reduction
                        continue
                    if not hasattr(out, "azimuthal"):
                        V("awkward-sum-result-is-not-a-vector", cell=cell, type=type(out).__name__)
                        continue
                    if isinstance(out, Momentum) != mom_eff:
                        V("awkward-sum-changes-flavor", cell=cell, type=type(out).__name__)
                    osys = B.stored_columns(out)[1] if not isinstance(out, ak.Record) else awk.result_vectors(out)[0]
                    if osys is None or len(osys) + 1 != dim or osys[0] != "xy":
                        V("awkward-sum-result-dimension-or-system", cell=cell, fields=list(ak.fields(out)))
                        continue
                    bad = False
                    for k in cnames:
                        want = ak.sum(plain[k], axis=axis, keepdims=keep, mask_identity=mask)
                        got = getattr(out, k)
                        wl = ak.to_list(want) if isinstance(want, ak.Array) else want
                        gl = ak.to_list(got) if isinstance(got, ak.Array) else got
                        if mask:
                            # mask_identity=True is not part of the statement ("empty lists sum to the zero vector"):
                            # where the plain reducer masks a sum over no valid element, None and zero are both accepted
                            gl, n_masked = _masked_like(gl, wl)
                            if n_masked:
                                res.count("observed_not_judged:zero_where_plain_reducer_masks_identity")
                        if awk.skeleton(gl) != awk.skeleton(wl):
                            V("awkward-sum-structure-differs-from-component-sum", cell=cell, component=k, got=repr(gl)[:160], expected=repr(wl)[:160])
                            bad = True
                            break
                        gf, wf = awk.flat_leaves(gl) if isinstance(gl, list) else [gl], awk.flat_leaves(wl) if isinstance(wl, list) else [wl]
                        for g_, w_ in zip(gf, wf):
                            if (g_ is None) != (w_ is None) or (g_ is not None and abs(float(g_) - float(w_)) > TOL * scale):
                                V("awkward-sum-is-not-the-cartesian-component-sum", cell=cell, component=k, got=repr(gl)[:160], expected=repr(wl)[:160])
                                bad = True
                                break
                        if bad:
                            break
                    res.cell("ak.sum", cell)
            for axis in list(range(depth)) + [-k_ for k_ in range(1, depth + 1)] + [None]:
                res.evaluations += 1
                cell = f"{sn}|{fl}|{lname}|{route}|axis={axis}"
                nzp = None
                for k in cnames:
                    nzp = (plain[k] != 0) if nzp is None else (nzp | (plain[k] != 0))
                try:
                    c1, w1 = ak.count(arr, axis=axis), ak.count(plain["x"], axis=axis)
                    c2, w2 = ak.count_nonzero(arr, axis=axis), ak.count_nonzero(nzp, axis=axis)
                except Exception as e:
                    V("awkward-count-raises", cell=cell, exc=f"{type(e).__name__}: {e}"[:200])
                    continue
                tl = lambda x: ak.to_list(x) if isinstance(x, ak.Array) else int(x)  # noqa: E731
                if tl(c1) != tl(w1):
                    V("awkward-count-is-not-the-number-of-elements", cell=cell, got=repr(tl(c1))[:120], expected=repr(tl(w1))[:120])
                if tl(c2) != tl(w2):
                    V("awkward-count_nonzero-is-not-the-number-of-nonzero-vectors", cell=cell, got=repr(tl(c2))[:120], expected=repr(tl(w2))[:120])
                res.cell("ak.count", cell)
    res.sample({"system": sn, "flavor": fl, "numpy_shapes": [list(s) for s in shapes], "awkward_layouts": list(structs)})
    return res


def finalize(total, tier, seed):
    kinds = {c.split("|")[0] for c in total.cells}
    for k in ("numpy.sum", "numpy.count_nonzero", "ak.sum", "ak.count", "numpy.sum-rejects"):
        if k not in kinds:
            total.inconc(f"reducer {k} never judged")
    return {"reducers": sorted(kinds)}
