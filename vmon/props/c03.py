"""C03 — object, NumPy and Awkward backends compute the same values.

Differential monitor: every catalogued operation on identical float64 inputs
as N object calls, as NumPy array calls (shapes (n,), (1,n), (n,1), 2-D, 3-D,
strided view, mixed with a single object) and as Awkward array / record calls
(flat, jagged with empty lists, nested depth 3, regular, option at list and
leaf level, empty, extra fields; three construction routes incl. hand-named
momentum records; mixed pairings).  Element i must equal the object result
for element i; shape / list structure / missing positions must be preserved
(DESIGN §3 C03).
"""
from __future__ import annotations

from .. import catalog as C
from .. import sweep
from .. import workload as W
from ..verdict import Result

LEVEL = "exploration"
RULE = ("every catalogued operation x sampled (quick) / up to 36 (thorough) coordinate signatures x both flavors x "
        "NumPy shapes x Awkward layouts/routes x mixed pairings, 8 well-conditioned float64 operand sets per batch; "
        "a cell is (operation, dim, signature, array variant), non-trivial when at least one element was compared with "
        "the object-backend result for the same inputs (or, for empty layouts, the structure was compared)")
ASSUMPTIONS = [
    "the object backend is the reference of the differential comparison (its values are C02's to judge)",
    "tolerance 1e-11 of the natural scale (SIMD vs scalar loops may differ in the last ulp)",
    "dask-awkward / typetracer backends are exercised only by the repository's own tests",
]
NSHARDS = {"quick": 48, "thorough": 96}
SHARD_TIMEOUT = {"quick": 1200, "thorough": 10800}


def plan(tier, seed):
    items = W.cost_table()
    # cost here is dominated by the number of variants, not signatures
    items = [(n, d, 1) for n, d, _ in items]
    return [{"i": i, "items": b} for i, b in enumerate(W.pack(items, NSHARDS[tier]))]


def run_shard(spec, tier, seed):
    res = Result()
    sweep.run(spec["items"], tier, seed, res, "C03")
    return res


def finalize(total, tier, seed):
    ops_seen = {c.split("|")[0] for c in total.cells}
    missing = [n for n in C.OPS if n not in ops_seen]
    if missing:
        total.inconc(f"operations never compared across backends: {missing[:8]}")
    variants = {c.split("|")[-1] for c in total.cells}
    return {"operations_compared": len(ops_seen), "array_variants": sorted(variants)}
