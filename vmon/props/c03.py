"""C03 — object, NumPy and Awkward backends compute the same values.

Differential monitor: every catalogued operation on identical float64 inputs
as N object calls, as NumPy array calls (shapes (n,), (1,n), (n,1), 2-D, 3-D,
strided view, mixed with a single object) and as Awkward array / record calls
(flat, jagged with empty lists, nested depth 3, regular, option at list and
leaf level, empty, extra fields; three construction routes incl. hand-named
momentum records; mixed pairings).  Element i must equal the object result
for element i; shape / list structure / missing positions must be preserved
(DESIGN §3 C03).
"""
from __future__ import annotations

from .. import catalog as C
from .. import sweep
from .. import workload as W
from ..verdict import Result

LEVEL = "exploration"
AWKWARD_REGISTRATION_MIX = True
RULE = ("every catalogued operation x sampled (quick) / up to 36 (thorough) coordinate signatures x both flavors x "
        "NumPy shapes x Awkward layouts/routes x mixed pairings, 8 well-conditioned float64 operand sets per batch; "
        "a cell is (operation, dim, signature, array variant), non-trivial when at least one element was compared with "
        "the object-backend result for the same inputs (or, for empty layouts, the structure was compared)")
ASSUMPTIONS = [
    "the object backend is the reference of the differential comparison (its values are C02's to judge)",
    "tolerance 1e-11 of the natural scale (SIMD vs scalar loops may differ in the last ulp)",
    "dask-awkward / typetracer backends are exercised only by the repository's own tests",
]
NSHARDS = {"quick": 48, "thorough": 96}
SHARD_TIMEOUT = {"quick": 1200, "thorough": 10800}


def plan(tier, seed):
    items = W.cost_table()
    # cost here is dominated by the number of variants, not signatures
    items = [(n, d, 1) for n, d, _ in items]
    # every bin of operations runs twice, each time on half of the sampled signatures: once with and once without
    # vector.register_awkward() (main shifts the two modes by seed and repetition)
    return [{"i": i, "items": b, "half": h, "_registered": h} for i, b in enumerate(W.pack(items, NSHARDS[tier])) for h in (0, 1)] + \
        [{"mutate": True, "dim": d} for d in (2, 3, 4)] + \
        [{"outforms": True, "dim": d} for d in (2, 3, 4)] + [{"ufuncs": True, "dim": d} for d in (2, 3, 4)]


def run_mutated(spec, tier, seed):
    """arrays whose stored coordinates are overwritten in place *between* calls (`arr["x"] = ...`,
    `awk["pt"] = awk.pt * corr`): every property and method afterwards must see the new values, i.e. give exactly what
    a freshly built array of the same content gives (and what the object backend gives for the elements)"""
    import awkward as ak
    import numpy

    from .. import backends as B
    from .. import gen
    from .. import refmodel as R
    from ..engine import LVec

    res = Result()
    dim = spec["dim"]
    r = gen.rng(seed, "C03mutate", dim)
    n = 4
    ops = [op for op in C.OPS.values() if dim in op.dims and not op.args and not op.momentum_only]
    for system in R.SYSTEMS[dim]:
        for mom in (False, True):
            ls = []
            while len(ls) < n:
                rv, _ = gen.vec4(r, core=True, causal="timelike", forward=True) if dim == 4 else gen.vec(r, dim, core=True)
                try:
                    l = LVec(rv, system, mom)
                    l.exact_coords()
                    ls.append(l)
                except R.NotRepresentable:
                    pass
            rows = [list(l.f64()[0]) for l in ls]
            names_g = R.field_names(system)
            for ci, cname in enumerate(names_g):
                factor = 1.25 if cname not in ("phi", "theta") else 0.75
                new_rows = [list(row) for row in rows]
                for row in new_rows:
                    row[ci] = row[ci] * factor
                me = mom and any(B.MOM_SPELL[x] for x in names_g)
                fname_m = B.names_for(system, me, 0)[ci]
                builders = {
                    "numpy": (lambda rws: B.mk_numpy_cls(system, rws, mom), cname),
                    "awkward:zip": (lambda rws: B.mk_awk(system, rws, me, counts=[1, 0, n - 1]), cname),
                    "awkward:with_name": (lambda rws: B.mk_awk(system, rws, me, counts=[1, 0, n - 1], route="with_name"), fname_m),
                }
                for bname, (build, field) in builders.items():
                    try:
                        arr = build(rows)
                        fresh = build(new_rows)
                        # warm up: touch properties and a method before the assignment
                        for op in ops[:6]:
                            op.call(arr)
                        arr.azimuthal, getattr(arr, "longitudinal", None), getattr(arr, "temporal", None)
                        if bname == "numpy":
                            arr[field] = numpy.array([row[ci] for row in new_rows])
                        else:
                            arr[field] = arr[field] * factor
                    except Exception as e:
                        res.violation(f"C03/in-place-field-assignment-raises backend={bname.split(':')[0]}",
                                      {"system": R.sysname(system), "field": field, "exc": f"{type(e).__name__}: {e}"[:200]})
                        continue
                    for op in ops:
                        res.evaluations += 1
                        try:
                            a, b = op.call(arr), op.call(fresh)
                        except Exception as e:
                            res.count("mutated_call_raises:" + type(e).__name__)
                            continue
                        if op.result == "vec":
                            ka, kb = B.stored_columns(a), B.stored_columns(b)
                            same = ka[1] == kb[1] and [[B.bits(float(x)) for x in c] for c in ka[2]] == [[B.bits(float(x)) for x in c] for c in kb[2]]
                        elif bname == "numpy":
                            same = numpy.asarray(a).tobytes() == numpy.asarray(b).tobytes()
                        else:
                            same = ak.to_list(a) == ak.to_list(b) or str(ak.to_list(a)) == str(ak.to_list(b))
                        if not same:
                            res.violation(f"C03/result-after-in-place-field-assignment-differs-from-fresh-array backend={bname.split(':')[0]} op={op.name}",
                                          {"system": R.sysname(system), "assigned_field": field, "momentum": mom})
                        res.cell("mutate", op.name, bname, R.sysname(system), field)
            if not mom:
                res.sample({"part": "mutate", "system": R.sysname(system), "rows0": rows[0], "operations": len(ops)})
    return res


def run_outforms(spec, tier, seed):
    """the `out=` spelling of the vector-valued ufuncs (numpy.add / subtract / multiply / true_divide / negative with
    out=array): afterwards element i of `out`, read by field *name*, is the object-backend result for element i,
    whatever the field order / dtype / memory layout / coordinate system of `out` -- or the call raises; it never files
    numbers under the wrong names.  The returned array is judged too."""
    import numpy

    from .. import backends as B
    from .. import gen
    from .. import refmodel as R
    from ..engine import LVec

    res = Result()
    dim = spec["dim"]
    r = gen.rng(seed, "C03out", dim)
    n = 4
    tol = 1e-11

    def rows_for(system, mom):
        ls = []
        while len(ls) < n:
            rv, _ = gen.vec4(r, core=True, causal="timelike", forward=True) if dim == 4 else gen.vec(r, dim, core=True)
            try:
                l = LVec(rv, system, mom)
                l.exact_coords()
                ls.append(l)
            except R.NotRepresentable:
                pass
        return [tuple(l.f64()[0]) for l in ls]

    def cart(v):
        return [float(getattr(v, c)) for c in ("x", "y", "z", "t")[:dim]]

    systems = R.SYSTEMS[dim]
    for si, asys in enumerate(systems):
        bsys = systems[(si * 5 + 1) % len(systems)]
        mom = si % 2 == 0
        ra, rb = rows_for(asys, mom), rows_for(bsys, False)
        a, b = B.mk_numpy_cls(asys, ra, mom), B.mk_numpy_cls(bsys, rb, False)
        oa, ob = [B.mk_obj(asys, row, mom) for row in ra], [B.mk_obj(bsys, row, False) for row in rb]
        forms = {
            "numpy.add": (lambda o: numpy.add(a, b, out=o), lambda i: oa[i].add(ob[i]), lambda: a.add(b)),
            "numpy.subtract": (lambda o: numpy.subtract(a, b, out=o), lambda i: oa[i].subtract(ob[i]), lambda: a.subtract(b)),
            "numpy.multiply": (lambda o: numpy.multiply(a, 1.5, out=o), lambda i: oa[i].scale(1.5), lambda: a.scale(1.5)),
            "numpy.true_divide": (lambda o: numpy.true_divide(a, 4.0, out=o), lambda i: oa[i].scale(0.25), lambda: a.scale(0.25)),
            "numpy.negative": (lambda o: numpy.negative(a, out=o), lambda i: oa[i].scale(-1), lambda: a.scale(-1)),
        }
        if asys[-1] == "tau":
            forms.pop("numpy.negative")
            forms.pop("numpy.subtract")
        for fname, (call, objres, meth) in forms.items():
            want = [cart(objres(i)) for i in range(n)]
            scale = max(1.0, max(abs(c) for w in want for c in w))
            proto = numpy.asarray(meth()).view(numpy.ndarray)
            rnames = list(proto.dtype.names)
            cls = type(meth())
            layouts = {
                "same-as-result": [(nm, "<f8") for nm in rnames],
                "fields-reversed": [(nm, "<f8") for nm in reversed(rnames)],
                "fields-rotated": [(nm, "<f8") for nm in rnames[1:] + rnames[:1]],
                "big-endian": [(nm, ">f8") for nm in rnames],
                "extra-field-first": [("weight", "<f8")] + [(nm, "<f8") for nm in rnames],
            }
            other = systems[(si + 3) % len(systems)]
            if R.field_names(other) != tuple(rnames) and set(R.field_names(other)) != set(rnames):
                layouts["other-coordinate-system"] = [(nm, "<f8") for nm in R.field_names(other)]
            for lname, dt in layouts.items():
                res.evaluations += 1
                cell = f"{fname}|{R.sysname(asys)}|{R.sysname(bsys)}|{lname}"
                out = numpy.full(n, -7.25, dtype=dt).view(cls)
                try:
                    ret = call(out)
                except Exception as e:
                    if lname in ("other-coordinate-system", "extra-field-first"):
                        res.cell("outform-raises", cell)   # refusing is fine; mislabelling is not
                    else:
                        res.violation(f"C03/ufunc-out-form-raises form={fname} out-layout={lname}", {"cell": cell, "exc": f"{type(e).__name__}: {e}"[:200]})
                    continue
                for what, arr in (("out", out), ("returned", ret)):
                    try:
                        got = [cart(arr[i]) for i in range(n)]
                    except Exception as e:
                        res.violation(f"C03/ufunc-out-form-leaves-unusable-array form={fname} out-layout={lname}", {"cell": cell, "which": what, "exc": f"{type(e).__name__}: {e}"[:200]})
                        continue
                    bad = [(i, g, w) for i, (g, w) in enumerate(zip(got, want)) if any(not abs(x - y) <= tol * scale for x, y in zip(g, w))]
                    if bad:
                        res.violation(f"C03/ufunc-out-form-element-differs-from-object-backend form={fname} out-layout={lname} which={what}",
                                      {"cell": cell, "row": bad[0][0], "got": bad[0][1], "expected": bad[0][2], "out_fields": [d_[0] for d_ in dt]})
                if lname == "extra-field-first" and not numpy.all(numpy.asarray(out).view(numpy.ndarray)["weight"] == -7.25):
                    res.violation(f"C03/ufunc-out-form-overwrites-extra-field form={fname}", {"cell": cell})
                res.cell("outform", cell)
    res.sample({"part": "out= forms", "dim": dim, "layouts": list(layouts), "forms": list(forms)})
    return res


def run_ufuncs(spec, tier, seed):
    """the scalar-valued operator / NumPy-function spellings (abs, **, numpy.absolute, numpy.square, numpy.sqrt, numpy.cbrt,
    numpy.power) on NumPy and Awkward arrays: element i is what the same spelling gives for the object vector i"""
    import awkward as ak
    import numpy

    from .. import awk
    from .. import backends as B
    from .. import gen
    from .. import refmodel as R
    from ..engine import LVec

    res = Result()
    dim = spec["dim"]
    r = gen.rng(seed, "C03ufunc", dim)
    n = 6
    forms = {"abs(v)": lambda v: abs(v), "numpy.absolute": lambda v: numpy.absolute(v), "numpy.square": lambda v: numpy.square(v),
             "numpy.sqrt": lambda v: numpy.sqrt(v), "numpy.cbrt": lambda v: numpy.cbrt(v), "v**2": lambda v: v ** 2, "v**3": lambda v: v ** 3,
             "v**0.5": lambda v: v ** 0.5, "numpy.power(v,2)": lambda v: numpy.power(v, 2), "numpy.power(v,3)": lambda v: numpy.power(v, 3),
             "numpy.power(v,1.5)": lambda v: numpy.power(v, 1.5), "numpy.power(v,-1)": lambda v: numpy.power(v, -1)}
    struct = [[0, 1], [], [2, 3, 4], [5]]
    for system in R.SYSTEMS[dim]:
        for mom in (False, True):
            ls = []
            while len(ls) < n:
                rv, _ = gen.vec4(r, core=True, causal="timelike", forward=True) if dim == 4 else gen.vec(r, dim, core=True)
                try:
                    l = LVec(rv, system, mom)
                    l.exact_coords()
                    ls.append(l)
                except R.NotRepresentable:
                    pass
            rows = [l.f64()[0] for l in ls]
            objs = [B.mk_obj(system, row, mom) for row in rows]
            me = mom and any(B.MOM_SPELL[x] for x in R.field_names(system))
            arrays = {"numpy": B.mk_numpy_cls(system, rows, mom), "numpy(2,3)": B.mk_numpy_cls(system, rows, mom, (2, 3)),
                      "awkward:zip": awk.build(system, rows, me, struct, route="zip", extra=True),
                      "awkward:with_name": awk.build(system, rows, me, struct, route="with_name", spelling=1),
                      "awkward:Array": awk.build(system, rows, me, struct, route="Array")}
            for fname, f in forms.items():
                try:
                    want = [float(f(o)) for o in objs]
                except Exception:
                    res.count("ufunc_form_object_raises:" + fname)
                    continue
                scale = max(1.0, max(abs(w) for w in want))
                for aname, arr in arrays.items():
                    res.evaluations += 1
                    cell = f"{fname}|{R.sysname(system)}|{'mom' if mom else 'gen'}|{aname}"
                    try:
                        out = f(arr)
                        got = [float(x) for x in (ak.to_list(ak.flatten(out, axis=None)) if isinstance(out, ak.Array) else numpy.asarray(out).reshape(-1))]
                    except Exception as e:
                        res.violation(f"C03/array-backend-raises-where-object-returns variant={aname.split(':')[0]} op={fname}",
                                      {"cell": cell, "exc": f"{type(e).__name__}: {e}"[:200]})
                        continue
                    if len(got) != n or any(not abs(g - w) <= 1e-11 * max(scale, abs(w)) for g, w in zip(got, want)):
                        res.violation(f"C03/element-differs-from-object-backend variant={aname.split(':')[0]} op={fname}",
                                      {"cell": cell, "got": got[:3], "expected": want[:3]})
                    if isinstance(out, ak.Array) and awk.skeleton(ak.to_list(out)) != awk.skeleton(struct):
                        res.violation(f"C03/awkward-structure-not-preserved variant=awkward op={fname}", {"cell": cell})
                    if isinstance(out, numpy.ndarray) and aname == "numpy(2,3)" and out.shape != (2, 3):
                        res.violation(f"C03/numpy-shape-not-preserved variant=numpy op={fname}", {"cell": cell, "got_shape": list(out.shape)})
                    res.cell("ufunc", cell)
    res.sample({"part": "operator / numpy-function spellings", "dim": dim, "forms": list(forms)})
    return res


def run_shard(spec, tier, seed):
    if spec.get("ufuncs"):
        return run_ufuncs(spec, tier, seed)
    if spec.get("mutate"):
        return run_mutated(spec, tier, seed)
    if spec.get("outforms"):
        return run_outforms(spec, tier, seed)
    res = Result()
    sweep.run(spec["items"], tier, seed, res, "C03", half=spec.get("half"))
    return res


def finalize(total, tier, seed):
    ops_seen = {c.split("|")[0] for c in total.cells}
    missing = [n for n in C.OPS if n not in ops_seen]
    if missing:
        total.inconc(f"operations never compared across backends: {missing[:8]}")
    variants = {c.split("|")[-1] for c in total.cells}
    return {"operations_compared": len(ops_seen), "array_variants": sorted(variants)}
