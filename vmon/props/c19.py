"""C19 — NumPy vector arrays behave as arrays of vectors.

For array ranks 1-3, all 20 coordinate systems and both flavors: integer
(tuple) indexing gives the object vector with the same class family, system,
flavor and bit-identical coordinates; slices, masks, fancy indices, reshape, T,
ravel, views and copies keep class/system/flavor and select the right
elements; coordinate-name (and synonym) indexing returns the stored column;
the array form of an object vector and numpy.asarray of an array are as
documented; pickling (all protocols) and copying round-trip class, dtype, shape
and values and the result is still a working vector array (DESIGN §3 C19).
"""
from __future__ import annotations

import copy
import pickle

import numpy

from .. import backends as B
from .. import gen
from .. import refmodel as R
from ..engine import LVec
from ..verdict import Result

LEVEL = "exploration"
REPS = {"quick": 1, "thorough": 12}
RULE = ("20 coordinate systems x 2 flavors x shapes {(n,), (a,b), (a,b,c)} x index expressions (every integer tuple; slices with "
        "steps/negatives; boolean masks; fancy indices; Ellipsis/newaxis; reshape, T, ravel, flatten, view, copy, astype-free "
        "views) x field names and synonyms x asarray/asanyarray/__array__ x pickle protocols 0-5 / copy / deepcopy; a cell is "
        "(action, system, flavor, shape), non-trivial when the result was compared with the same action on the plain structured array")
ASSUMPTIONS = ["bit-for-bit comparison against the same index expression applied to the plain structured ndarray"]
SHARD_TIMEOUT = {"quick": 900, "thorough": 7200}


def plan(tier, seed):
    return [{"system": list(s), "mom": m} for s in R.ALL_SYSTEMS for m in (False, True)]


def run_shard(spec, tier, seed):
    import vector
    from vector._methods import Momentum

    res = Result()
    system = tuple(spec["system"])
    mom = spec["mom"]
    dim = len(system) + 1
    sn = R.sysname(system)
    fl = "mom" if mom else "gen"
    r = gen.rng(seed, "C19", sn, mom)
    names = R.field_names(system)
    cls = getattr(vector, ("MomentumNumpy" if mom else "VectorNumpy") + f"{dim}D")
    ocls = getattr(vector, ("MomentumObject" if mom else "VectorObject") + f"{dim}D")

    def V(mech, **d):
        res.violation(f"C19/{mech}", {"system": sn, "flavor": fl, **d})

    def is_vec_array(x):
        return type(x) is cls

    forms = (((6,), "canonical"), ((2, 3), "canonical"), ((2, 3, 2), "canonical"), ((6,), "reversed"), ((2, 3), "rotated"),
             # other legitimate array forms: a non-coordinate field carried along, other column dtypes, other memory layouts,
             # empty arrays
             ((6,), "extra-field"), ((2, 3), "float32"), ((6,), "int64"), ((2, 3), "mixed-dtypes"), ((2, 3), "fortran"),
             ((6,), "big-endian"), ((2, 3, 2), "strided"), ((0,), "empty"), ((2, 0), "empty"))
    for fi, (shape, field_order) in enumerate(forms):
        if fi == 1:
            # history: between the first form (fresh process) and all the others, the documented coordinate classes are
            # constructed with valid but non-canonical dtypes (fields in another order, an extra field) -- nothing of that
            # may show in how later arrays are indexed
            import vector.backends.numpy as vbn
            for cname_, flds in (("AzimuthalNumpyXY", ("x", "y")), ("AzimuthalNumpyRhoPhi", ("rho", "phi")), ("LongitudinalNumpyZ", ("z",)),
                                 ("LongitudinalNumpyTheta", ("theta",)), ("LongitudinalNumpyEta", ("eta",)), ("TemporalNumpyT", ("t",)),
                                 ("TemporalNumpyTau", ("tau",))):
                for dt_ in ([(f, numpy.float64) for f in reversed(flds)], [("weight", numpy.float32)] + [(f, numpy.float64) for f in flds]):
                    try:
                        getattr(vbn, cname_)([tuple(1.0 + k for k in range(len(dt_)))] * 2, dtype=dt_)
                        res.count("history:coordinate_class_constructed_with_noncanonical_dtype")
                    except Exception:
                        res.count("history:coordinate_class_construction_rejected")
        n = int(numpy.prod(shape))
        rows = []
        integer = field_order == "int64"
        while len(rows) < max(n, 3):
            rv, _ = gen.vec4(r, core=True, forward=True) if dim == 4 else gen.vec(r, dim, core=True)
            try:
                row = LVec(rv, system, mom).f64()[0]
            except R.NotRepresentable:
                continue
            if integer:
                row = tuple(float(max(1, min(3, round(c)))) if nm in ("theta",) else float(max(-3, min(3, round(c)))) if nm in ("phi", "eta")
                            else float(round(c * 8) or 1) for nm, c in zip(names, row))
            elif field_order in ("float32", "mixed-dtypes"):
                row = tuple(float(numpy.float32(c)) for c in row)
            rows.append(row)
        obj_rows = rows
        rows = rows[:n]
        if n and not integer:
            rows[0] = tuple(-0.0 if i == 0 else c for i, c in enumerate(rows[0]))
        extra_names = ()
        if field_order == "canonical":
            arr = B.mk_numpy_cls(system, rows, mom, shape)
        elif field_order in ("reversed", "rotated"):
            # the same records with the fields laid out in another order (e.g. ROOT-style E, px, py, pz): everything
            # is addressed by name, so nothing may depend on the position of a field
            onames = list(reversed(names)) if field_order == "reversed" else list(names[1:]) + [names[0]]
            raw = numpy.zeros(n, dtype=[(nm, numpy.float64) for nm in onames])
            for i, nm in enumerate(names):
                raw[nm] = [row[i] for row in rows]
            arr = raw.reshape(shape).view(cls)
        else:
            dts = {"float32": [numpy.float32] * dim, "int64": [numpy.int64] * dim,
                   "mixed-dtypes": [(numpy.float32, numpy.float64, numpy.int64 if False else numpy.float32, numpy.float64)[i] for i in range(dim)],
                   "big-endian": [">f8"] * dim}.get(field_order, [numpy.float64] * dim)
            fields = [(nm, dt) for nm, dt in zip(names, dts)]
            if field_order == "extra-field":
                fields = [fields[0], ("charge", numpy.int64)] + fields[1:] + [("weight", numpy.float32)]
                extra_names = ("charge", "weight")
            raw = numpy.zeros(n, dtype=fields)
            for i, nm in enumerate(names):
                raw[nm] = [row[i] for row in rows]
            if extra_names:
                raw["charge"] = numpy.arange(n) % 3 - 1
                raw["weight"] = numpy.arange(n) * 0.5
            raw = raw.reshape(shape)
            if field_order == "fortran":
                raw = numpy.asfortranarray(raw)
            elif field_order == "strided":
                wide = numpy.zeros(shape + (2,), dtype=raw.dtype)
                wide[..., 0] = raw
                wide[..., 1] = numpy.array(tuple(-9.75 for _ in names), dtype=raw.dtype)
                raw = wide[..., 0]
            arr = raw.view(cls)
        plain = numpy.asarray(arr).view(numpy.ndarray).copy()
        key = f"{sn}|{fl}|{shape}|{field_order}"

        # ---------------- integer (tuple) indexing -> object vector
        for idx in numpy.ndindex(*shape):
            res.evaluations += 1
            ix = idx if len(idx) > 1 else idx[0]
            try:
                o = arr[ix]
            except Exception as e:
                V("integer-index-raises", index=list(idx), exc=f"{type(e).__name__}: {e}"[:200])
                continue
            if type(o) is not ocls:
                V("integer-index-wrong-class", index=list(idx), got=type(o).__name__, expected=ocls.__name__)
                continue
            osys, stored = B.obj_stored(o)
            want = tuple(plain[idx][nm] for nm in names)
            if osys != system or not all(B.same_bits(float(a), float(b)) for a, b in zip(stored, want)):
                V("integer-index-wrong-element", index=list(idx), got=[repr(x) for x in stored], expected=[repr(x) for x in want], got_system=R.sysname(osys))
            # negative indices
            nidx = tuple(i - s for i, s in zip(idx, shape))
            o2 = arr[nidx if len(nidx) > 1 else nidx[0]]
            if B.obj_stored(o2) != B.obj_stored(o):
                V("negative-index-differs", index=list(nidx))
            # other spellings of the same integer index: NumPy integer scalars, 0-d integer arrays, a chain of indices
            alts = {"numpy.int64": tuple(numpy.int64(i) for i in idx), "numpy.uint8": tuple(numpy.uint8(i) for i in idx),
                    "0-d-array": tuple(numpy.array(i) for i in idx)}
            for aname, aidx in alts.items():
                try:
                    o3 = arr[aidx if len(aidx) > 1 else aidx[0]]
                    if type(o3) is not ocls or B.obj_stored(o3) != B.obj_stored(o):
                        V(f"integer-index-spelling-differs spelling={aname}", index=list(idx), got=type(o3).__name__)
                except Exception as e:
                    V(f"integer-index-spelling-raises spelling={aname}", index=list(idx), exc=f"{type(e).__name__}: {e}"[:200])
            if len(idx) > 1:
                try:
                    o4 = arr
                    for i in idx:
                        o4 = o4[i]
                    if type(o4) is not ocls or B.obj_stored(o4) != B.obj_stored(o):
                        V("chained-integer-index-differs", index=list(idx), got=type(o4).__name__)
                except Exception as e:
                    V("chained-integer-index-raises", index=list(idx), exc=f"{type(e).__name__}: {e}"[:200])
        if len(shape) == 1 and n:
            # iterating a 1-D array visits the same vector objects as indexing it
            try:
                its = list(arr)
                if len(its) != n or any(type(o) is not ocls or B.obj_stored(o) != B.obj_stored(arr[i]) for i, o in enumerate(its)):
                    V("iteration-differs-from-integer-indexing", got=[type(o).__name__ for o in its][:3])
                res.cell("iteration", key)
            except Exception as e:
                V("iteration-raises", exc=f"{type(e).__name__}: {e}"[:200])
        res.cell("integer-index", key)

        # ---------------- index expressions that return arrays
        exprs = {
            "slice": (slice(1, None),), "slice-step": (slice(None, None, 2),), "slice-neg": (slice(None, None, -1),),
            "empty-slice": (slice(2, 2),), "ellipsis": (Ellipsis,), "newaxis": (None,),
            "mask": (numpy.arange(shape[0]) % 2 == 0,), "fancy": ([shape[0] - 1, 0, 0],), "fancy-array": (numpy.array([0, 1]),),
        }
        if len(shape) >= 2:
            exprs.update({"row": (1,), "col": (slice(None), 1), "mixed": (slice(None, None, -1), [0, 2]), "fullmask": (plain[names[0]] > plain[names[0]].mean(),)})
        if len(shape) == 3:
            exprs.update({"3d": (1, slice(None), 0), "3d-ellipsis": (Ellipsis, 1)})
        for ename, ix in exprs.items():
            res.evaluations += 1
            ixx = ix if len(ix) > 1 else ix[0]
            try:
                want = plain[ixx]
            except Exception:
                try:
                    arr[ixx]
                    V(f"index-expression-accepted-where-ndarray-raises expr={ename}")
                except Exception:
                    res.cell("index-raises-like-ndarray:" + ename, key)
                continue
            try:
                got = arr[ixx]
            except Exception as e:
                V(f"index-expression-raises expr={ename}", exc=f"{type(e).__name__}: {e}"[:200])
                continue
            if isinstance(want, numpy.void):
                continue
            if not is_vec_array(got):
                V(f"index-expression-loses-class expr={ename}", got=type(got).__name__, expected=cls.__name__)
                continue
            g = numpy.asarray(got).view(numpy.ndarray)
            if g.shape != want.shape or g.dtype.names != want.dtype.names or g.tobytes() != want.tobytes():
                V(f"index-expression-wrong-elements expr={ename}", got_shape=list(g.shape), expected_shape=list(want.shape))
                continue
            try:
                if g.size:
                    _ = got.rho
                    _ = got[tuple(0 for _ in g.shape)] if g.ndim else None
            except Exception as e:
                V(f"indexed-array-not-functional expr={ename}", exc=f"{type(e).__name__}: {e}"[:200])
            res.cell("index:" + ename, key)

        # ---------------- shape-changing views
        views = {"reshape": lambda a: a.reshape(-1), "reshape2": lambda a: a.reshape(n // 2, 2), "T": lambda a: a.T, "ravel": lambda a: a.ravel(),
                 "flatten": lambda a: a.flatten(), "copy": lambda a: a.copy(), "view": lambda a: a.view(), "view-cls": lambda a: a.view(cls),
                 "squeeze": lambda a: a[None].squeeze(), "swapaxes": lambda a: a.swapaxes(0, -1), "ascontiguous": lambda a: numpy.ascontiguousarray(a.T) if False else a.T.copy(),
                 "asanyarray": lambda a: numpy.asanyarray(a)}
        for vname, f in views.items():
            res.evaluations += 1
            try:
                got, want = f(arr), f(plain)
            except Exception as e:
                V(f"view-raises action={vname}", exc=f"{type(e).__name__}: {e}"[:200])
                continue
            if not is_vec_array(got):
                V(f"view-loses-class action={vname}", got=type(got).__name__, expected=cls.__name__)
                continue
            g = numpy.asarray(got).view(numpy.ndarray)
            if g.shape != want.shape or g.tobytes() != want.tobytes() or g.dtype.names != plain.dtype.names:
                V(f"view-wrong-elements action={vname}", got_shape=list(g.shape), expected_shape=list(want.shape))
            try:
                _ = got.phi
                if isinstance(got, Momentum) != mom:
                    V(f"view-changes-flavor action={vname}")
            except Exception as e:
                V(f"view-not-functional action={vname}", exc=f"{type(e).__name__}: {e}"[:200])
            res.cell("view:" + vname, key)

        # ---------------- re-casting a vector array as another vector class (other flavor, or fewer dimensions: the higher
        # coordinates become plain extra fields) gives what casting the plain structured array gives
        if field_order == "canonical" and n:
            casts = [(dim, not mom)] + [(d2, m2) for d2 in range(2, dim) for m2 in (mom, not mom)]
            for d2, m2 in casts:
                cls2 = getattr(vector, ("MomentumNumpy" if m2 else "VectorNumpy") + f"{d2}D")
                ocls2 = getattr(vector, ("MomentumObject" if m2 else "VectorObject") + f"{d2}D")
                res.evaluations += 1
                cname2 = f"view({cls2.__name__})"
                try:
                    got = arr.view(cls2)
                    want = plain.copy().view(cls2)
                    i0 = tuple(0 for _ in shape)
                    e_g, e_w = got[i0 if len(i0) > 1 else i0[0]], want[i0 if len(i0) > 1 else i0[0]]
                    ok = (type(got) is cls2 and type(e_g) is ocls2 and type(e_w) is ocls2 and B.obj_stored(e_g) == B.obj_stored(e_w)
                          and numpy.asarray(got).view(numpy.ndarray).tobytes() == numpy.asarray(want).view(numpy.ndarray).tobytes())
                    sl = got[1:] if len(shape) == 1 else got[:, 1:]
                    ok = ok and type(sl) is cls2 and type(pickle.loads(pickle.dumps(got))) is cls2 and type(got.copy()[i0 if len(i0) > 1 else i0[0]]) is ocls2
                    _ = got.rho, got.phi
                    if not ok:
                        V(f"recast-as-another-vector-class-differs-from-casting-the-plain-array action={cname2}",
                          got=[type(got).__name__, type(e_g).__name__, repr(B.obj_stored(e_g))[:120]], expected=[cls2.__name__, ocls2.__name__, repr(B.obj_stored(e_w))[:120]])
                except Exception as e:
                    V(f"recast-as-another-vector-class-not-functional action={cname2}", exc=f"{type(e).__name__}: {e}"[:200])
                res.cell("recast:" + ("flavor" if d2 == dim else "lower-dimension"), key)
        # ---------------- coordinate-name / synonym indexing returns the stored column (same memory)
        for nm in names:
            spellings = [nm] + (list(B.MOM_SPELL[nm]) if mom else [])
            for sp in spellings:
                res.evaluations += 1
                try:
                    col = arr[sp]
                except Exception as e:
                    V(f"field-index-raises name={sp}", exc=f"{type(e).__name__}: {e}"[:200])
                    continue
                if type(col) is not numpy.ndarray:
                    V(f"field-index-not-a-plain-column name={sp}", got=type(col).__name__)
                elif col.shape != shape or col.dtype != plain.dtype[nm] or col.tobytes() != plain[nm].tobytes() or (n and not numpy.shares_memory(col, arr)):
                    V(f"field-index-is-not-the-stored-column name={sp}")
                res.cell("field:" + sp, key)
        for nm in extra_names:
            res.evaluations += 1
            try:
                col = arr[nm]
                if type(col) is not numpy.ndarray or col.dtype != plain.dtype[nm] or col.tobytes() != plain[nm].tobytes():
                    V(f"extra-field-index-is-not-the-stored-column name={nm}", got=type(col).__name__)
                res.cell("field:extra", key)
            except Exception as e:
                V(f"extra-field-index-raises name={nm}", exc=f"{type(e).__name__}: {e}"[:200])
        if not mom:
            for sp in ("px", "pt", "E", "mass"):
                try:
                    arr[sp]
                    V(f"generic-array-accepts-momentum-field-name name={sp}")
                except (ValueError, KeyError, IndexError):
                    pass

        # ---------------- asarray gives the plain structured array with the same fields and bytes
        res.evaluations += 1
        pa = numpy.asarray(arr)
        if type(pa) is not numpy.ndarray and not isinstance(pa, numpy.ndarray):
            V("asarray-not-ndarray", got=type(pa).__name__)
        elif pa.view(numpy.ndarray).dtype.names != plain.dtype.names or pa.tobytes() != plain.tobytes() or pa.shape != shape:
            V("asarray-differs-from-structured-array")
        res.cell("asarray", key)

        # ---------------- pickle / copy round trips
        trips = {f"pickle{p}": (lambda p: lambda a: pickle.loads(pickle.dumps(a, protocol=p)))(p) for p in range(0, pickle.HIGHEST_PROTOCOL + 1)}
        trips.update({"copy.copy": copy.copy, "copy.deepcopy": copy.deepcopy,
                      "pickle-of-slice": lambda a: pickle.loads(pickle.dumps(a[1:])), "pickle-of-T": lambda a: pickle.loads(pickle.dumps(a.T))})
        for tname, f in trips.items():
            res.evaluations += 1
            src = arr[1:] if tname == "pickle-of-slice" else (arr.T if tname == "pickle-of-T" else arr)
            try:
                got = f(arr)
            except Exception as e:
                V(f"round-trip-raises action={tname}", exc=f"{type(e).__name__}: {e}"[:200])
                continue
            g = numpy.asarray(got).view(numpy.ndarray)
            s_ = numpy.asarray(src).view(numpy.ndarray)
            if type(got) is not cls:
                V(f"round-trip-loses-class action={tname}", got=type(got).__name__)
                continue
            if g.dtype != s_.dtype or g.shape != s_.shape or g.tobytes() != s_.tobytes():
                V(f"round-trip-changes-dtype-shape-or-values action={tname}", got_dtype=str(g.dtype), expected_dtype=str(s_.dtype))
                continue
            try:
                a1, b1 = numpy.asarray(got.rho2), numpy.asarray(src.rho2)
                if a1.tobytes() != b1.tobytes():
                    V(f"round-tripped-array-computes-differently action={tname}")
                rz = got.rotateZ(0.25)
                if type(rz) is not cls and not isinstance(rz, cls.__mro__[1]):
                    V(f"round-tripped-array-result-class action={tname}", got=type(rz).__name__)
                e0 = got[tuple(0 for _ in g.shape)] if g.size else None
                if g.size and type(e0) is not ocls:
                    V(f"round-tripped-array-element-class action={tname}", got=type(e0).__name__)
                if mom and "x" in names:
                    _ = got["px"]
            except Exception as e:
                V(f"round-tripped-array-not-functional action={tname}", exc=f"{type(e).__name__}: {e}"[:200])
            res.cell("roundtrip:" + tname, key)

    # ---------------- the array form of an object vector
    for rep in range(3):
        row = obj_rows[rep]
        o = B.mk_obj(system, row, mom)
        for fname, f in (("__array__", lambda: o.__array__()), ("asanyarray", lambda: numpy.asanyarray(o))):
            res.evaluations += 1
            try:
                a = f()
            except Exception as e:
                V(f"object-array-form-raises form={fname}", exc=f"{type(e).__name__}: {e}"[:200])
                continue
            if type(a) is not cls:
                V(f"object-array-form-wrong-class form={fname}", got=type(a).__name__, expected=cls.__name__)
                continue
            g = numpy.asarray(a).view(numpy.ndarray)
            if g.dtype.names != names or g.size != 1 or not all(B.same_bits(float(g[nm].reshape(-1)[0]), float(c)) for nm, c in zip(names, row)):
                V(f"object-array-form-wrong-content form={fname}", names=list(g.dtype.names or ()), shape=list(g.shape))
            res.cell("object-array-form:" + fname, sn, fl)
            # history: the array form is a fresh array every time -- writing into one result, or changing the object, must
            # not show in (or be hidden from) the next conversion
            try:
                a1 = f()
                numpy.asarray(a1).view(numpy.ndarray)[names[0]] = 99.5
                a2 = f()
                g2 = numpy.asarray(a2).view(numpy.ndarray)
                if a2 is a1 or numpy.shares_memory(g2, numpy.asarray(a1).view(numpy.ndarray)):
                    V(f"object-array-form-is-not-a-fresh-array form={fname}")
                elif not all(B.same_bits(float(g2[nm].reshape(-1)[0]), float(c)) for nm, c in zip(names, row)):
                    V(f"object-array-form-stale-after-writing-into-an-earlier-result form={fname}",
                      got=[repr(float(g2[nm].reshape(-1)[0])) for nm in names], expected=[repr(c) for c in row])
                if B.obj_stored(o)[1] != tuple(float(c) for c in row):
                    V(f"writing-into-the-array-form-changed-the-object form={fname}")
                # change the object through a setter of another coordinate system, then convert again
                o2 = B.mk_obj(system, row, mom)
                f2 = (lambda: o2.__array__()) if fname == "__array__" else (lambda: numpy.asanyarray(o2))
                f2()
                if system[0] == "xy":
                    o2.rho = 2.5
                else:
                    o2.x = 1.25
                a3 = f2()
                g3 = numpy.asarray(a3).view(numpy.ndarray)
                nsys, nstored = B.obj_stored(o2)
                nn = R.field_names(nsys)
                if g3.dtype.names != nn or not all(B.same_bits(float(g3[nm].reshape(-1)[0]), float(c)) for nm, c in zip(nn, nstored)):
                    V(f"object-array-form-stale-after-assignment form={fname}", names=list(g3.dtype.names or ()), expected_names=list(nn))
                res.cell("object-array-form-history:" + fname, sn, fl)
            except Exception as e:
                V(f"object-array-form-history-raises form={fname}", exc=f"{type(e).__name__}: {e}"[:200])
    res.sample({"system": sn, "flavor": fl, "row0": [repr(x) for x in obj_rows[0]], "forms": [f"{sh}:{fo}" for sh, fo in forms]})
    return res


def finalize(total, tier, seed):
    acts = {c.split("|")[0] for c in total.cells}
    if len(acts) < 45:
        total.inconc(f"only {len(acts)} distinct actions judged")
    return {"actions": len(acts)}
