"""C18 — Awkward arrays keep structure and extra fields through vector operations.

Layout generator (regular, variable, nested to depth 3, option-typed at list /
record / field level, empty outer and inner lists, IndexedArray and
ByteMaskedArray nodes, extra fields that are numeric, string and nested lists;
three construction routes incl. hand-named momentum records) x every
catalogued operation x sampled coordinate systems x both flavors.  Oracles:
list structure / missing positions / type modulo record contents preserved;
single-array operations carry every non-coordinate field unchanged and nothing
stale; two-vector arithmetic returns coordinates only; result record name has
the right flavor and dimension; a record taken out of an array behaves like
the equivalent object vector (DESIGN §3 C18).
"""
from __future__ import annotations

import re

import mpmath
import numpy
from mpmath import mpf

from .. import awk
from .. import backends as B
from .. import catalog as C
from .. import engine as E
from .. import gen
from .. import refmodel as R
from .. import sweep
from .. import workload as W
from ..engine import LVec
from ..verdict import Result

LEVEL = "exploration"
AWKWARD_REGISTRATION_MIX = True
RULE = ("every catalogued operation x 12 Awkward layouts x 3 construction routes (rotating in quick, all in thorough) x "
        "sampled coordinate systems x both flavors, with numeric/string/nested extra fields; a cell is (operation, layout, "
        "route, oracle) and is non-trivial when the operation returned and the oracle compared result and operand")
ASSUMPTIONS = [
    "operations with a secondary vector argument (boosts, rotate_axis) are judged on structure and record name only; whether "
    "they carry extra fields is not stated by the property",
    "values are C03's business; here element values are only used for the record-vs-object comparison (1e-11)",
]
NSHARDS = {"quick": 48, "thorough": 96}
SHARD_TIMEOUT = {"quick": 1200, "thorough": 10800}
N = 8
COORD_NAMES = set(B.ALL_NAMES)
TWO_VECTOR = {"add", "subtract", "cross"}
SECONDARY = {"rotate_axis"}


def plan(tier, seed):
    items = [(n, d, 1) for n, d, _ in W.cost_table()]
    specs = [{"i": i, "items": b} for i, b in enumerate(W.pack(items, NSHARDS[tier]))]
    specs += [{"records": True, "system": list(s)} for s in R.ALL_SYSTEMS]
    return specs


def layouts(n):
    S = dict(awk.structures(n))
    idx = list(range(n))
    S["option_record_level"] = [[idx[0], None], [None], idx[1:]]
    S["empty_inner_only"] = [[], [], []]
    return S


def build(system, rows, mom, struct, route, spelling, special=None, tag=""):
    """array with rich extra fields; `special` in (None, 'indexed', 'bytemasked', 'regular')"""
    import awkward as ak

    import vector
    import vector.backends.awkward as vba

    names = B.names_for(system, mom, spelling)
    if mom and not any(nm in B.GENERIC_OF for nm in names):
        mom = False
    dim = len(system) + 1
    empty = isinstance(struct, list) and len(struct) == 0

    noleaves = not empty and not any(isinstance(l, int) for l in awk.flat_leaves(struct))

    def col(f, dtype=None):
        if empty:
            return ak.Array(numpy.zeros(0, dtype=dtype or numpy.float64))
        if noleaves:  # lists that are all empty: keep a definite leaf type
            return ak.unflatten(numpy.zeros(0, dtype=dtype or numpy.float64), [0] * len(struct))
        return ak.Array(awk.map_struct(struct, f))
    extras = {}
    if tag:
        extras = {"charge" + tag: col(lambda r: int(r % 5 + 10), numpy.int64)} if not empty else {"charge" + tag: ak.Array(numpy.zeros(0, dtype=numpy.int64))}
    elif not empty and any(isinstance(l, int) for l in awk.flat_leaves(struct)):
        # 'qopt' is missing for some particles whose coordinates are all present (an option type on one field only)
        extras = {"charge": col(lambda r: int(r % 3 - 1)), "label": col(lambda r: f"trk{r}"),
                  "hits": col(lambda r: [float(r), float(r) + 0.5][: (r % 3)]),
                  "qopt": col(lambda r: None if r % 2 else int(r) - 3)}
    elif not empty:
        extras = {"charge": col(lambda r: int(r % 3 - 1), numpy.int64)}
    else:
        extras = {"charge": ak.Array(numpy.zeros(0, dtype=numpy.int64))}
    if route == "Array" and tag:
        route = "zip"
    if route == "Array":
        if empty:
            route = "zip"
        else:
            def rec(r):
                d = {nm: float(rows[r][i]) for i, nm in enumerate(names)}
                # vector.Array type-checks every field of the records: numeric extra fields only on this route
                d.update({"charge": int(r % 3 - 1), "iso": float(r) / 8, "qopt": None if r % 2 else int(r) - 3})
                return d
            arr = ak.Array(awk.map_struct(struct, rec))
            if not any(isinstance(l, int) for l in awk.flat_leaves(struct)):
                route = "zip"
            else:
                out = vector.Array(arr)
                return _special(out, special), mom
    cols = {nm: col((lambda i: lambda r: float(rows[r][i]))(i)) for i, nm in enumerate(names)}
    cols.update(extras)
    depth = None
    if "hits" in cols:
        # zip only down to the record level (the nested 'hits' lists must not be broadcast into the records)
        depth = _depth(struct)
    if route == "zip":
        out = vector.zip(cols, depth_limit=depth)
    else:
        flavor = "Momentum" if mom else "Vector"
        out = ak.zip(cols, depth_limit=depth, with_name=f"{flavor}{dim}D", behavior=vba.behavior)
    return _special(out, special), mom


def _depth(struct):
    d = 0
    s = struct
    while isinstance(s, list):
        d += 1
        nxt = None
        for e in s:
            if isinstance(e, list):
                nxt = e
                break
        s = nxt if nxt is not None else 0
    return max(d, 1)


def _special(arr, special):
    import awkward as ak

    if special is None or len(arr) == 0:
        return arr
    if special == "indexed":
        perm = list(range(len(arr)))[::-1]
        return arr[perm][perm]  # IndexedArray nodes, same logical order
    if special == "bytemasked":
        m = ak.mask(arr, [True] * len(arr))
        return m
    if special == "regular":
        return arr
    return arr


def structure_fingerprint(x):
    """ak.num at every axis + None positions + type string without record contents"""
    import awkward as ak

    if not isinstance(x, ak.Array):
        return ("scalar",)
    lst = ak.to_list(x)
    skel = awk.skeleton(lst) if not ak.fields(x) else _skel_records(lst)
    t = str(x.type)
    t = re.sub(r"(Momentum|Vector)\dD\[[^\]]*\]", "REC", t)
    t = re.sub(r"\{[^}]*\}", "REC", t)
    t = re.sub(r"\??(float64|int64|bool)", "LEAF", t)
    return (repr(skel), t)


def _skel_records(x):
    if x is None:
        return None
    if isinstance(x, dict):
        return None if all(v is None for k, v in x.items() if k in COORD_NAMES) and any(k in COORD_NAMES for k in x) else 0
    if isinstance(x, list):
        return [_skel_records(e) for e in x]
    return 0


def expected_fingerprint(operand_fp, result):
    return operand_fp


def run_shard(spec, tier, seed):
    if spec.get("records"):
        return run_records(spec, tier, seed)
    import awkward as ak

    res = Result()
    L = layouts(N)
    routes = ["zip", "Array", "with_name"]
    specials = [None, None, "indexed", "bytemasked"]
    for opname, dim in spec["items"]:
        op = C.OPS[opname]
        r = gen.rng(seed, "C18", opname, dim)
        odims = op.other_dims(dim) if op.other_dims else (None,)
        for odim in odims:
            sigs = sweep.signatures(op, dim, odim, "quick", r)[: (2 if tier == "quick" else 4)]
            for (s_self, s_other, order) in sigs:
                cases = None
                for attempt in range(6):  # redraw until all N operand sets are representable in this signature
                    draws = W.make_batch(op, dim, r, N, odim=odim, momentum=op.momentum_only or r.random() < 0.5)
                    try:
                        cases = [W.instantiate(d, s_self, s_other, order) for d in draws]
                        break
                    except R.NotRepresentable:
                        res.count("batch_redrawn_not_representable")
                if cases is None:
                    continue
                selfs = [c[0] for c in cases]
                plain = sweep._scalars_plain(cases[0][1])
                vecpos = [j for j, a in enumerate(cases[0][1]) if isinstance(a, LVec)]
                k = r.randrange(12)
                for li, (lname, struct) in enumerate(L.items()):
                    rs = routes if tier == "thorough" else [routes[(li + k) % 3]]
                    for route in rs:
                        special = specials[(li + k) % 4]
                        spelling = (li + k) % 3
                        try:
                            v, mom_eff = build(s_self, [l.f64()[0] for l in selfs], selfs[0].momentum, struct, route, spelling, special)
                            a = list(plain)
                            for j in vecpos:
                                col = [c[1][j] for c in cases]
                                a[j], _ = build(s_other, [l.f64()[0] for l in col], col[0].momentum, struct, route, spelling, None, tag="_b")
                        except Exception as e:
                            res.inconc(f"cannot build layout {lname}/{route}: {type(e).__name__}: {e}"[:300])
                            continue
                        cellbase = f"{op.name}|{lname}|{route}"
                        sig = f"{op.name}|{dim}|{R.sysname(s_self)}|{R.sysname(s_other) if s_other else '-'}|{lname}|{route}|{special}"
                        before_fields = list(ak.fields(v))
                        fp_in = structure_fingerprint(v[ak.fields(v)[0]])
                        extras_in = {f: ak.to_list(v[f]) for f in before_fields if f not in COORD_NAMES}
                        res.evaluations += 1
                        try:
                            out = op.call(v, *a)
                        except Exception as e:
                            # the object backend returns for these operands (core, in-domain): an exception here is structural
                            try:
                                E.eval_obj(op, cases[0][0], cases[0][1])
                                obj_ok = True
                            except Exception:
                                obj_ok = False
                            if obj_ok:
                                res.violation(f"C18/operation-raises-on-layout layout={lname} route={_rt(route)} op={op.name}",
                                              {"sig": sig, "exc": f"{type(e).__name__}: {e}"[:300], "type": str(v.type)[:200]})
                            continue
                        # ---- structure
                        if isinstance(out, (ak.Array,)):
                            probe = out[ak.fields(out)[0]] if ak.fields(out) else out
                            fp_out = structure_fingerprint(probe)
                            if fp_out[0] != fp_in[0]:
                                res.violation(f"C18/list-structure-or-missing-positions-changed layout={lname} op={op.name}",
                                              {"sig": sig, "operand": fp_in[0][:300], "result": fp_out[0][:300]})
                            elif _norm_type(fp_out[1]) != _norm_type(fp_in[1]):
                                res.violation(f"C18/nesting-type-changed layout={lname} op={op.name}",
                                              {"sig": sig, "operand": fp_in[1], "result": fp_out[1]})
                            res.cell(cellbase, "structure")
                        elif len(v) > 0 or not isinstance(struct, list):
                            res.violation(f"C18/result-is-not-an-array layout={lname} op={op.name}", {"sig": sig, "got": type(out).__name__})
                            continue
                        # ---- fields
                        if op.result == "vec" and isinstance(out, ak.Array):
                            fo = list(ak.fields(out))
                            extra_out = [f for f in fo if f not in COORD_NAMES]
                            system, gmap = awk.result_vectors(out)
                            if system is None:
                                res.violation(f"C18/result-has-no-coordinate-set op={op.name}", {"sig": sig, "fields": fo})
                                continue
                            used = set(gmap.values())
                            stale = [f for f in fo if f in COORD_NAMES and f not in used]
                            if stale:
                                res.violation(f"C18/stale-coordinate-fields-in-result route={_rt(route)} op={op.name}",
                                              {"sig": sig, "stale": stale, "fields": fo, "operand_fields": before_fields})
                            if op.name in TWO_VECTOR:
                                if extra_out:
                                    res.violation(f"C18/two-vector-operation-carries-extra-fields op={op.name}", {"sig": sig, "fields": fo})
                                res.cell(cellbase, "coordinates-only")
                            elif not vecpos:
                                missing = [f for f in extras_in if f not in fo]
                                if missing:
                                    res.violation(f"C18/extra-field-dropped op={op.name} layout={lname}", {"sig": sig, "missing": missing, "fields": fo})
                                for f in extras_in:
                                    if f in fo and ak.to_list(out[f]) != extras_in[f]:
                                        res.violation(f"C18/extra-field-changed op={op.name} layout={lname}",
                                                      {"sig": sig, "field": f, "before": repr(extras_in[f])[:200], "after": repr(ak.to_list(out[f]))[:200]})
                                unknown = [f for f in extra_out if f not in extras_in]
                                if unknown:
                                    res.violation(f"C18/unknown-field-appeared op={op.name}", {"sig": sig, "fields": unknown})
                                res.cell(cellbase, "extra-fields-carried")
                            else:
                                # a secondary vector argument (booster, rotation axis): whether self's extra fields are carried is
                                # not stated, but the result must not pick up fields self does not have, carry a proper subset, or change them
                                foreign = [f for f in extra_out if f not in extras_in]
                                if foreign:
                                    res.violation(f"C18/fields-of-the-secondary-operand-in-result op={op.name}", {"sig": sig, "fields": fo, "foreign": foreign})
                                elif extra_out and sorted(extra_out) != sorted(extras_in):
                                    res.violation(f"C18/only-some-extra-fields-carried op={op.name}", {"sig": sig, "fields": fo})
                                for f in extra_out:
                                    if f in extras_in and ak.to_list(out[f]) != extras_in[f]:
                                        res.violation(f"C18/extra-field-changed op={op.name} layout={lname}", {"sig": sig, "field": f})
                                res.cell(cellbase, "secondary-operand-fields")
                            # ---- record name: flavor and dimension as the object backend gives them
                            try:
                                eo = E.eval_obj(op, cases[0][0], cases[0][1])
                                want = ("Momentum" if eo.momentum else "Vector") + f"{eo.dim}D"
                                got = awk.recname(out)
                                if got != want:
                                    res.violation(f"C18/result-record-name route={_rt(route)} op={op.name}",
                                                  {"sig": sig, "got": got, "expected": want, "fields": fo})
                                if not hasattr(out, "azimuthal"):
                                    res.violation(f"C18/result-is-not-a-vector-array route={_rt(route)} op={op.name}", {"sig": sig, "type": type(out).__name__})
                                res.cell(cellbase, "record-name")
                            except Exception:
                                res.count("skip_object_reference_raised")
                # ---- one-per-event broadcast against many-per-event: the result takes the deeper list structure
                J = [[0, 1], [], [2, 3, 4], [5, 6, 7]]
                jag_fp = repr(awk.skeleton(J))
                try:
                    flat_self, _ = build(s_self, [l.f64()[0] for l in selfs[:4]], selfs[0].momentum, [0, 1, 2, 3], "zip", 0, None, tag="_ev")
                    a = list(plain)
                    bro = None
                    if vecpos and op.name not in SECONDARY:
                        for j in vecpos:
                            col = [c[1][j] for c in cases]
                            a[j], _ = build(s_other, [l.f64()[0] for l in col], col[0].momentum, J, "zip", 0, None, tag="_b")
                        bro = "flat x jagged vector"
                    else:
                        gi = next((j for j, k in enumerate(op.args) if k in sweep.GRID_KINDS), None)
                        if gi is not None and not vecpos and op.group != "embedding":
                            a[gi] = ak.Array(awk.map_struct(J, lambda i: float(cases[0][1][gi]) * (0.5 + 0.125 * (i % 3))))
                            bro = "flat x jagged scalar"
                    if bro:
                        res.evaluations += 1
                        out = op.call(flat_self, *a)
                        if isinstance(out, ak.Array):
                            probe = out[ak.fields(out)[0]] if ak.fields(out) else out
                            got = repr(awk.skeleton(ak.to_list(probe)))
                            if got != jag_fp:
                                res.violation(f"C18/broadcast-result-does-not-take-the-deeper-structure op={op.name}",
                                              {"how": bro, "got": got[:200], "expected": jag_fp, "type": str(out.type)[:200]})
                            if op.result == "vec" and bro == "flat x jagged scalar":
                                for f, vals in {f: ak.to_list(flat_self[f]) for f in ak.fields(flat_self) if f not in COORD_NAMES and f != "hits" and f != "label"}.items():
                                    if f not in ak.fields(out):
                                        res.violation(f"C18/extra-field-dropped op={op.name} layout=broadcast", {"missing": f})
                                    else:
                                        want = [[vals[li]] * len(lst) for li, lst in enumerate(J)]
                                        if ak.to_list(out[f]) != want:
                                            res.violation(f"C18/extra-field-not-broadcast-with-the-vectors op={op.name}",
                                                          {"field": f, "got": repr(ak.to_list(out[f]))[:200], "expected": repr(want)[:200]})
                            res.cell(f"{op.name}|broadcast|zip", "structure")
                except Exception as e:
                    try:
                        E.eval_obj(op, cases[0][0], cases[0][1])
                        res.violation(f"C18/operation-raises-on-layout layout=broadcast route=vector-constructor op={op.name}",
                                      {"exc": f"{type(e).__name__}: {e}"[:300]})
                    except Exception:
                        pass
                # ---- a secondary vector operand (booster) of another depth, or a record as `self`: both sides carry their own
                # extra fields; the result takes the deeper structure and never the secondary operand's fields
                if vecpos and op.name not in TWO_VECTOR and op.name != "rotate_axis" and op.result == "vec":
                    for how in ("flat x jagged booster", "record x jagged booster", "jagged x flat booster"):
                        try:
                            if how.startswith("jagged"):
                                sv_, _ = build(s_self, [l.f64()[0] for l in selfs], selfs[0].momentum, J, "zip", 0, None, tag="_ev")
                            else:
                                sv_, _ = build(s_self, [l.f64()[0] for l in selfs[:4]], selfs[0].momentum, [0, 1, 2, 3], "zip", 0, None, tag="_ev")
                            if how.startswith("record"):
                                sv_ = sv_[2]
                            a = list(plain)
                            for j in vecpos:
                                col = [c[1][j] for c in cases]
                                if how.endswith("flat booster"):
                                    a[j], _ = build(s_other, [l.f64()[0] for l in col[:4]], col[0].momentum, [0, 1, 2, 3], "zip", 0, None, tag="_b")
                                else:
                                    a[j], _ = build(s_other, [l.f64()[0] for l in col], col[0].momentum, J, "zip", 0, None, tag="_b")
                            res.evaluations += 1
                            out = op.call(sv_, *a)
                        except Exception as e:
                            res.violation(f"C18/operation-raises-on-layout layout=secondary-operand-of-another-depth op={op.name}",
                                          {"how": how, "exc": f"{type(e).__name__}: {e}"[:300]})
                            continue
                        fo = list(ak.fields(out))
                        own = [f for f in ak.fields(sv_) if f not in COORD_NAMES]
                        foreign = [f for f in fo if f not in COORD_NAMES and f not in own]
                        if foreign:
                            res.violation(f"C18/fields-of-the-secondary-operand-in-result op={op.name}", {"how": how, "fields": fo, "foreign": foreign})
                        probe = out[fo[0]]
                        got = repr(awk.skeleton(ak.to_list(probe)))
                        if got != jag_fp:
                            res.violation(f"C18/broadcast-result-does-not-take-the-deeper-structure op={op.name}",
                                          {"how": how, "got": got[:200], "expected": jag_fp, "type": str(out.type)[:200]})
                        res.cell(f"{op.name}|secondary-other-depth|{how}", "fields+structure")
                if len(res.samples) < 4:
                    res.sample({"op": op.name, "dim": dim, "system": R.sysname(s_self), "layouts": list(L), "example_type": str(v.type)[:160]})
    return res


def _rt(route):
    return "with_name" if route == "with_name" else "vector-constructor"


def _norm_type(t):
    # option markers may legitimately move between '?LEAF' and 'option[...]' spellings; dimensions must agree
    return re.sub(r"\s+", "", t)


def run_records(spec, tier, seed):
    """arr[i] / arr[i][j] behaves like the equivalent object vector"""
    import awkward as ak
    from vector._methods import Momentum

    res = Result()
    system = tuple(spec["system"])
    dim = len(system) + 1
    sn = R.sysname(system)
    r = gen.rng(seed, "C18rec", sn)
    for mom in (False, True):
        rows, ls = [], []
        while len(rows) < N:
            rv, _ = gen.vec4(r, core=True, causal="timelike", forward=True) if dim == 4 else gen.vec(r, dim, core=True)
            try:
                l = LVec(rv, system, mom)
                rows.append(l.f64()[0])
                ls.append(l)
            except R.NotRepresentable:
                pass
        for route in ("zip", "Array", "with_name"):
            for lname in ("flat", "jagged", "nested3"):
                struct = awk.structures(N)[lname]
                arr, mom_eff = build(system, rows, mom, struct, route, r.randrange(3))
                picks = {"flat": [(3,)], "jagged": [(2, 0), (3, 1)], "nested3": [(0, 1, 0), (3, 0, 2)]}[lname]
                for pick in picks:
                    rec = arr
                    st = struct
                    for i in pick:
                        rec = rec[i]
                        st = st[i]
                    row = st
                    cell = f"{sn}|{'mom' if mom_eff else 'gen'}|{route}|{lname}"
                    if not isinstance(rec, ak.Record) or not hasattr(rec, "azimuthal"):
                        res.violation(f"C18/selected-record-is-not-a-vector-record route={_rt(route)}", {"cell": cell, "type": type(rec).__name__})
                        continue
                    if isinstance(rec, Momentum) != mom_eff:
                        res.violation(f"C18/selected-record-flavor route={_rt(route)}", {"cell": cell, "type": type(rec).__name__})
                    o = B.mk_obj(system, rows[row], mom_eff)
                    for op in C.ops_for(dim, mom_eff):
                        odims = op.other_dims(dim) if op.other_dims else (None,)
                        d = W.make_draw(op, dim, r, core=True, mp=False, odim=odims[0], momentum=mom_eff)
                        try:
                            self_l, args = W.instantiate(d, system, R.SYSTEMS[odims[0]][r.randrange(len(R.SYSTEMS[odims[0]]))] if odims[0] else None,
                                                         "zyx" if "order" in op.args else None)
                        except R.NotRepresentable:
                            continue
                        oargs = [E.mat_obj(x) for x in args]
                        # the vector argument as a record too (taken from a one-element array)
                        rargs = []
                        for x, ox in zip(args, oargs):
                            if isinstance(x, LVec):
                                ra, _ = build(x.system, [x.f64()[0]], x.momentum, [0], "zip", 0)
                                rargs.append(ra[0])
                            else:
                                rargs.append(ox)
                        res.evaluations += 1
                        try:
                            exp = E.canon(op, op.call(o, *oargs))
                        except Exception:
                            res.count("skip_object_reference_raised")
                            continue
                        try:
                            got_raw = op.call(rec, *rargs)
                        except Exception as e:
                            res.violation(f"C18/record-raises-where-object-returns op={op.name}", {"cell": cell, "exc": f"{type(e).__name__}: {e}"[:300]})
                            continue
                        try:
                            skel, got, meta = sweep.canon_awkward(op, got_raw, {})
                        except Exception as e:
                            res.violation(f"C18/record-result-malformed op={op.name}", {"cell": cell, "problem": f"{type(e).__name__}: {e}"[:300]})
                            continue
                        g = got[0]
                        unit = E.unit_scale(LVec(B.to_rv(system, rows[row]), system), args, True)
                        ok, msg = sweep.compare_elem(op, g, ("ok", exp), unit, E.arg_gain(op, args))
                        if ok is False:
                            res.violation(f"C18/record-differs-from-object op={op.name}", {"cell": cell, "why": msg})
                        if op.result == "vec":
                            want = ("Momentum" if exp.momentum else "Vector") + f"{exp.dim}D"
                            if not isinstance(got_raw, ak.Record) or not hasattr(got_raw, "azimuthal"):
                                res.violation(f"C18/record-result-is-not-a-vector op={op.name}", {"cell": cell, "type": type(got_raw).__name__})
                            elif meta.get("recname") != want:
                                res.violation(f"C18/record-result-name op={op.name}", {"cell": cell, "got": meta.get("recname"), "expected": want})
                        res.cell(op.name, "record", route, lname)
        if system == ("xy", "z"):
            res.sample({"records": True, "system": sn, "row": [repr(x) for x in rows[0]]})
    return res


def finalize(total, tier, seed):
    ops_seen = {c.split("|")[0] for c in total.cells}
    missing = [n for n in C.OPS if n not in ops_seen]
    if missing:
        total.inconc(f"operations never executed on Awkward layouts: {missing[:8]}")
    lay = {c.split("|")[1] for c in total.cells if c.endswith("|structure")}
    if len(lay) < 9:
        total.inconc(f"only {len(lay)} layouts reached the structure oracle")
    return {"layouts": sorted(lay)}
