"""C20 — operations leave no trace in global state and are thread-deterministic.

(a) global-state monitor: every catalogued call on every backend — returning,
    raising TypeError, hitting singular inputs — under several prior settings of
    numpy.seterr / warnings filters / print options, bracketed by snapshots of
    the process-wide state (cheap snapshot at every dispatch exit through the
    tap, deep snapshot around every public call);
(b) register_awkward() / register_numba() are the only calls that change
    registries, and calling them twice equals calling them once (fresh
    processes, registered and unregistered Awkward modes);
(c) source-free failpoints: sys.monitoring LINE callbacks raise inside every
    dispatch function (inside its `with numpy.errstate` block): state restored
    on the exception path;
(d) thread determinism: the same call list evaluated sequentially and by 16
    threads (whole list each, and a partition) under a 1e-6 s switch interval
    with seeded yield injection inside vector frames, plus racing lazy first
    imports from a fresh process; results must be bit-identical
(DESIGN §3 C20).
"""
from __future__ import annotations

import os
import sys
import threading
import time
import warnings

import numpy

from .. import awk
from .. import backends as B
from .. import catalog as C
from .. import engine as E
from .. import gen
from .. import refmodel as R
from .. import snap
from .. import tap
from .. import workload as W
from ..engine import LVec
from ..verdict import Result

LEVEL = "exploration"
RULE = ("(a) every catalogued operation x {object, NumPy, Awkward array, Awkward record} x {regular, singular, raising} operands x "
        "5 prior global configurations, process state snapshotted around every public call and at every dispatch exit; (b) "
        "registration idempotence in fresh processes; (c) one injected exception per (dispatch function, line) for all 82 compute "
        "modules; (d) K-call lists run sequentially vs 16 threads (whole list / partition / racing first imports) with yield "
        "injection. A cell is (part, operation or module, backend/config/line); non-trivial when state (or results) before and "
        "after were compared")
ASSUMPTIONS = [
    "the private warnings mutation counter is not part of the state (every well-behaved catch_warnings bumps it)",
    "schedules are those the stress produced under CPython's GIL; the evidence counts overlapping dispatch intervals and "
    "context switches inside vector frames",
]
SHARD_TIMEOUT = {"quick": 1200, "thorough": 10800}
CONFIGS = ["default", "seterr-raise", "seterr-warn+warnings-error", "errcall+print", "seterr-ignore+filters", "registered-awkward"]


def plan(tier, seed):
    items = [(n, d, 1) for n, d, _ in W.cost_table()]
    bins = W.pack(items, 8 if tier == "quick" else 16)
    specs = []
    for cfg in CONFIGS:
        for i, b in enumerate(bins):
            specs.append({"part": "state", "config": cfg, "items": b, "i": i})
    specs += [{"part": "register", "what": w} for w in ("awkward", "numba", "awkward-then-ops")]
    mods = sorted(["planar", "spatial", "lorentz"])
    specs += [{"part": "failpoints", "pkg": p} for p in mods]
    specs += [{"part": "threads", "mode": m, "rep": k} for m in ("whole", "partition", "contend", "lazy-import") for k in range(2 if tier == "quick" else 6)]
    specs += [{"part": "order", "order": o, "rep": k} for k in range(1 if tier == "quick" else 3) for o in ("forward", "reverse", "shuffled-a", "shuffled-b")]
    return specs


# ---------------------------------------------------------------------------
# prior configurations

def apply_config(cfg):
    if cfg == "default":
        return
    if cfg == "registered-awkward":
        # the whole sweep again in the *registered* Awkward mode (behaviors come from the global registry)
        import vector

        vector.register_awkward()
        numpy.seterr(all="warn")
        return
    if cfg == "seterr-raise":
        numpy.seterr(all="raise")
    elif cfg == "seterr-warn+warnings-error":
        numpy.seterr(all="warn")
        warnings.simplefilter("error")
    elif cfg == "errcall+print":
        numpy.seterrcall(lambda *a: None)
        numpy.seterr(all="call")
        numpy.set_printoptions(precision=3, suppress=True, threshold=5)
    elif cfg == "seterr-ignore+filters":
        numpy.seterr(divide="ignore", over="warn", under="raise", invalid="print")
        warnings.filterwarnings("ignore", category=RuntimeWarning, module="nonexistent")
        warnings.filterwarnings("always", category=UserWarning)


def cheap_state():
    import awkward

    import vector

    return (tuple(sorted(numpy.geterr().items())), id(numpy.geterrcall()), len(warnings.filters), id(warnings.filters[0]) if warnings.filters else 0,
            numpy.get_printoptions()["precision"], numpy.get_printoptions()["threshold"], vector._awkward_registered,
            len(awkward.behavior), sum(hash((k, id(v))) & 0xFFFFFFFF for k, v in awkward.behavior.items()), id(warnings.showwarning))


class FilterWriteWatch:
    """Observes writes to the process-wide warnings filters made *during* a vector call (warnings.catch_warnings is a
    save/modify/restore of a process-wide list and is not thread-safe on this interpreter), and can replay a call in
    two threads under the one schedule in which such a temporary write leaks: A enters and modifies, B enters (saving
    A's modified filters), A leaves, B leaves (restoring what it saved)."""

    T = 20.0

    def __init__(self):
        self.lock = threading.Lock()
        self.watching = None      # thread ident whose entries are recorded
        self.entries = []         # (filename, line) of catch_warnings entries during the watched call
        self.roles = {}           # thread ident -> 'A' | 'B' (forced schedule)
        self.gated = {}           # id(catch_warnings instance) -> role
        self.ev = {}
        self.timeouts = 0
        self._enter = warnings.catch_warnings.__enter__
        self._exit = warnings.catch_warnings.__exit__
        self._simple = warnings.simplefilter
        self._filterw = warnings.filterwarnings
        watch = self

        def enter(cw):
            me = threading.get_ident()
            role = watch.roles.pop(me, None)
            if role == "B" and not watch.ev["A_inside"].wait(watch.T):
                watch.timeouts += 1
            out = watch._enter(cw)
            if watch.watching == me:
                fr = sys._getframe(1)
                watch.entries.append(("catch_warnings", fr.f_code.co_filename, fr.f_lineno))
            if role:
                watch.gated[id(cw)] = role
                if role == "B":
                    watch.ev["B_entered"].set()
            return out

        def exit_(cw, *exc):
            role = watch.gated.pop(id(cw), None)
            if role == "A":
                # everything A does inside its block is done: now let B save the filters as A left them
                watch.ev["A_inside"].set()
                if not watch.ev["B_entered"].wait(watch.T):
                    watch.timeouts += 1
            if role == "B" and not watch.ev["A_exited"].wait(watch.T):
                watch.timeouts += 1
            out = watch._exit(cw, *exc)
            if role == "A":
                watch.ev["A_exited"].set()
            return out

        def simple(*a, **k):
            if watch.watching == threading.get_ident():
                fr = sys._getframe(1)
                watch.entries.append(("simplefilter", fr.f_code.co_filename, fr.f_lineno))
            return watch._simple(*a, **k)

        def filterw(*a, **k):
            if watch.watching == threading.get_ident():
                fr = sys._getframe(1)
                watch.entries.append(("filterwarnings", fr.f_code.co_filename, fr.f_lineno))
            return watch._filterw(*a, **k)
        self._p = (enter, exit_, simple, filterw)

    def install(self):
        warnings.catch_warnings.__enter__, warnings.catch_warnings.__exit__ = self._p[0], self._p[1]
        warnings.simplefilter, warnings.filterwarnings = self._p[2], self._p[3]

    def uninstall(self):
        warnings.catch_warnings.__enter__, warnings.catch_warnings.__exit__ = self._enter, self._exit
        warnings.simplefilter, warnings.filterwarnings = self._simple, self._filterw

    def observe(self, f):
        """run f() in this thread; -> (outcome, entries recorded during the call)"""
        self.entries = []
        self.watching = threading.get_ident()
        try:
            f()
            outcome = "returned"
        except BaseException as e:
            outcome = type(e).__name__
        finally:
            self.watching = None
        return outcome, list(self.entries)

    def sandwich(self, f):
        """two threads run f() with their first catch_warnings blocks interleaved A-in, B-in, A-out, B-out;
        -> (filters before, filters after, timed_out)"""
        self.ev = {k: threading.Event() for k in ("A_inside", "B_entered", "A_exited")}
        self.gated = {}
        self.timeouts = 0
        before = list(warnings.filters)

        def run(role):
            self.roles[threading.get_ident()] = role
            try:
                f()
            except BaseException:
                pass
            finally:
                self.roles.pop(threading.get_ident(), None)
                # a thread that never reached a gate must not leave its partner waiting
                if role == "A":
                    self.ev["A_inside"].set()
                    self.ev["A_exited"].set()
                else:
                    self.ev["B_entered"].set()
        ta, tb = threading.Thread(target=run, args=("A",)), threading.Thread(target=run, args=("B",))
        ta.start(), tb.start()
        ta.join(3 * self.T), tb.join(3 * self.T)
        after = list(warnings.filters)
        return before, after, bool(self.timeouts or ta.is_alive() or tb.is_alive())


class StateHook:
    """cheap process-state equality at every dispatch enter/exit (runs on every dispatch of the workload)"""

    def __init__(self, res):
        self.res = res

    def enter(self, mod, args):
        return cheap_state()

    def exit(self, mod, args, token, result, exc):
        self.res.count("dispatch_brackets")
        if exc is not None:
            self.res.count("dispatch_brackets_on_exception")
        now = cheap_state()
        if now != token:
            self.res.violation(f"C20/global-state-changed-inside-dispatch module={mod}",
                               {"before": repr(token), "after": repr(now), "raised": repr(exc)[:100] if exc else None})


def singular_rows(system):
    """stored coordinates that hit divisions by zero / the light cone / the z axis"""
    dim = len(system) + 1
    out = []
    base = {"xy": [(0.0, 0.0), (1.0, 0.0)], "rhophi": [(0.0, 0.3), (2.0, 3.141592653589793)]}[system[0]]
    for az in base:
        row = list(az)
        if dim >= 3:
            row.append({"z": 0.0, "theta": 0.0, "eta": 0.0}[system[1]])
        if dim == 4:
            row.append(0.0)
        out.append(tuple(row))
    if dim == 4:
        # exactly lightlike, and spacelike
        out.append(tuple(list(base[1]) + [{"z": 0.0, "theta": 1.5707963267948966, "eta": 0.0}[system[1]]] + [{"t": 1.0 if system[0] == "xy" else 2.0, "tau": 0.0}[system[2]]]))
        out.append(tuple(list(base[1]) + [{"z": 5.0, "theta": 0.5, "eta": 2.0}[system[1]]] + [{"t": 0.5, "tau": -3.0}[system[2]]]))
    return out



def _dask_array(compute):
    import awkward as ak
    import vector

    try:
        import dask_awkward as dak
    except ImportError:
        return None
    a = dak.from_awkward(ak.Array([[{"px": 1.0, "py": 2.0, "pz": 3.0, "E": 10.0}], [], [{"px": 3.0, "py": 4.0, "pz": 0.5, "E": 9.0}]]), npartitions=1)
    v = vector.Array(a)
    return (v.pt.compute(), v.boostZ(beta=0.5).mass.compute()) if compute else v


def _merged_behavior():
    import awkward as ak
    import vector.backends.awkward as vba

    m = dict(ak.behavior)
    m.update(vba.behavior)
    return m


def run_state(spec, tier, seed, res):
    import awkward as ak
    import vector

    tap.install()
    cfg = spec["config"]
    apply_config(cfg)
    hook = StateHook(res)
    tap.HOOKS.append(hook)
    watch = FilterWriteWatch()
    watch.install()
    full0 = snap.state_json(snap.process_state())
    reg0 = snap.state_json(snap.registries_state())

    confirmed = set()

    def bracket(label, cell, f):
        before = cheap_state()
        res.evaluations += 1
        outcome, writes = watch.observe(f)
        res.count("calls_watched_for_temporary_writes_to_warnings_filters")
        after = cheap_state()
        res.count("outcome:" + outcome)
        if writes:
            # the call wrote to the process-wide warnings filters while it ran; equality afterwards does not make that
            # safe under threads: replay it under the one schedule in which a temporary write leaks
            res.count("calls_that_write_warnings_filters_temporarily")
            where = sorted({f"{k}@{os.path.relpath(fn, os.environ.get('VERIF_REPO', '/repo')) if fn.startswith(os.environ.get('VERIF_REPO', '/repo')) else os.path.basename(fn)}" for k, fn, ln in writes})
            key = (label.split(":")[0], tuple(where))
            if key not in confirmed and len(confirmed) < 40:
                confirmed.add(key)
                fb, fa, timed_out = watch.sandwich(f)
                res.count("forced_two_thread_schedules_run")
                if timed_out:
                    res.inconc(f"forced two-thread schedule for {label} timed out")
                elif [repr(x) for x in fb] != [repr(x) for x in fa]:
                    res.violation(f"C20/warnings-filters-leak-when-two-threads-overlap-in-call outcome={'returned' if outcome == 'returned' else 'raised'}",
                                  {"call": label, "cell": cell, "writes": where, "filters_before": len(fb), "filters_after": len(fa),
                                   "leaked": [repr(x) for x in fa if repr(x) not in {repr(y) for y in fb}][:3],
                                   "schedule": "A enters catch_warnings and modifies the filters, B enters, A leaves, B leaves (forced with gates on catch_warnings.__enter__/__exit__)"})
                    warnings.filters[:] = fb  # restore for the remaining checks
                    getattr(warnings, "_filters_mutated", lambda: None)()
        if before != after:
            res.violation(f"C20/global-state-changed-by-call outcome={'returned' if outcome == 'returned' else 'raised'} config={cfg}",
                          {"call": label, "cell": cell, "before": repr(before), "after": repr(after), "outcome": outcome})
        res.cell("state", label, cell, cfg)

    for opname, dim in spec["items"]:
        op = C.OPS[opname]
        r = gen.rng(seed, "C20", opname, dim, cfg)
        odims = op.other_dims(dim) if op.other_dims else (None,)
        odim = odims[r.randrange(len(odims))]
        s_self = R.SYSTEMS[dim][r.randrange(len(R.SYSTEMS[dim]))]
        s_other = R.SYSTEMS[odim][r.randrange(len(R.SYSTEMS[odim]))] if odim else None
        order = "zxz" if "order" in op.args else None
        draws = W.make_batch(op, dim, r, 4, odim=odim, momentum=op.momentum_only or r.random() < 0.5)
        try:
            cases = [W.instantiate(d, s_self, s_other, order) for d in draws]
        except R.NotRepresentable:
            continue
        plain = [E._conv_scalar(a, float) if not isinstance(a, LVec) else None for a in cases[0][1]]
        vecpos = [j for j, a in enumerate(cases[0][1]) if isinstance(a, LVec)]
        sing_self = singular_rows(s_self)
        sing_other = singular_rows(s_other) if s_other else None
        mom = cases[0][0].momentum

        def build(kind, rows, system, m):
            if kind == "object":
                return B.mk_obj(system, rows[0], m)
            if kind == "numpy":
                return B.mk_numpy_cls(system, rows, m)
            me = m and any(B.MOM_SPELL[x] for x in R.field_names(system))
            arr = awk.build(system, rows, me, [list(range(len(rows) - 1)), [], [len(rows) - 1]], route="zip")
            return arr if kind == "awkward" else arr[0, 0]

        for kind in ("object", "numpy", "awkward", "record"):
            for flavour_of_input in ("regular", "singular"):
                try:
                    if flavour_of_input == "regular":
                        v = build(kind, [c[0].f64()[0] for c in cases], s_self, mom)
                        a = list(plain)
                        for j in vecpos:
                            a[j] = build(kind, [c[1][j].f64()[0] for c in cases], s_other, cases[0][1][j].momentum)
                    else:
                        v = build(kind, sing_self, s_self, mom)
                        a = list(plain)
                        for j in vecpos:
                            rows_o = sing_other
                            if len(rows_o) != len(sing_self):
                                rows_o = (rows_o * 3)[: len(sing_self)]
                            a[j] = build(kind, rows_o, s_other, False)
                except Exception as e:
                    res.count("cannot_build:" + type(e).__name__)
                    continue
                bracket(f"{op.name}", f"{kind}|{flavour_of_input}", lambda: op.call(v, *a))
            # a call that must raise TypeError: wrong dimension / not a vector / missing argument
            v = build(kind, [c[0].f64()[0] for c in cases], s_self, mom)
            if vecpos:
                wrong = B.mk_obj(R.SYSTEMS[2 if dim != 2 else 3][0], [1.0, 2.0, 3.0][: (2 if dim != 2 else 3)], False)
                bracket(f"{op.name}", f"{kind}|wrong-dimension-operand", lambda: op.call(v, wrong, *plain[1:]))
                bracket(f"{op.name}", f"{kind}|non-vector-operand", lambda: op.call(v, 3.5, *plain[1:]))
            elif op.args:
                bracket(f"{op.name}", f"{kind}|bad-scalar-argument", lambda: op.call(v, *["not-a-number"] * len(op.args)))
        full_now = snap.state_json(snap.process_state())
        if full_now != full0:
            res.violation(f"C20/deep-process-state-changed config={cfg}", {"after_operation": op.name, "diff": _first_diff(full0, full_now)})
            full0 = full_now
    # operator and NumPy-function spellings, with arguments that return and arguments that raise, on every backend
    import vector
    rr = gen.rng(seed, "C20ops", cfg)
    for dim in (2, 3, 4):
        system = R.SYSTEMS[dim][rr.randrange(len(R.SYSTEMS[dim]))]
        rows = []
        while len(rows) < 4:
            rv, _ = gen.vec4(rr, core=True) if dim == 4 else gen.vec(rr, dim, core=True)   # 4-D: timelike and spacelike
            try:
                rows.append(LVec(rv, system, True).f64()[0])
            except R.NotRepresentable:
                pass
        for kind in ("object", "numpy", "awkward", "record"):
            if kind == "object":
                v = B.mk_obj(system, rows[0], True)
            elif kind == "numpy":
                v = B.mk_numpy_cls(system, rows, True)
            else:
                arr = awk.build(system, rows, any(B.MOM_SPELL[x] for x in R.field_names(system)), [[0, 1], [], [2, 3]], route="zip")
                v = arr if kind == "awkward" else arr[0, 0]
            spellings = {
                "abs": lambda: abs(v), "**2": lambda: v**2, "**2.5": lambda: v**2.5, "**-1": lambda: v**-1, "numpy.sqrt": lambda: numpy.sqrt(v),
                "numpy.cbrt": lambda: numpy.cbrt(v), "numpy.power": lambda: numpy.power(v, 1.5), "numpy.square": lambda: numpy.square(v),
                "neg": lambda: -v, "mul": lambda: v * 2.0, "div": lambda: v / 2.0, "add": lambda: v + v, "sub": lambda: v - v, "eq": lambda: v == v,
                "**str": lambda: v ** "half", "numpy.power(None)": lambda: numpy.power(v, None), "**list": lambda: v ** [1.0, 2.0, 3.0, 4.0, 5.0],
                "mul-str": lambda: v * "a", "div-zero": lambda: v / 0, "div-str": lambda: v / "a", "add-number": lambda: v + 3, "matmul-number": lambda: v @ 3,
                "numpy.add(out=bad)": lambda: numpy.add(v, v, out=(numpy.zeros(3),)), "numpy.power(vector)": lambda: numpy.power(v, v),
                "numpy.sqrt(out=)": lambda: numpy.sqrt(v, out=(v,)), "pow-3-args": lambda: pow(v, 2, 3), "isclose-bad": lambda: v.isclose(v, rtol="x"),
                "scale-None": lambda: v.scale(None), "rotateZ-str": lambda: v.rotateZ("a"), "to_Vector4D-conflict": lambda: v.to_Vector4D(t=1, tau=2) if dim < 4 else v.to_Vector4D(),
            }
            for name, f in spellings.items():
                bracket("op:" + name, f"{kind}|{dim}D", f)
    # constructors and other non-dispatch entry points
    for label, f in (("vector.obj", lambda: vector.obj(x=1.0, y=2.0)), ("vector.obj-invalid", lambda: vector.obj(x=1.0)),
                     ("vector.array", lambda: vector.array({"x": [1.0], "y": [2.0]})), ("vector.array-invalid", lambda: vector.array({"x": [1.0]})),
                     ("vector.zip", lambda: vector.zip({"x": [[1.0]], "y": [[2.0]]})), ("vector.zip-invalid", lambda: vector.zip({"x": [1.0]})),
                     ("vector.Array", lambda: vector.Array([{"x": 1.0, "y": 2.0}])), ("vector.Array-invalid", lambda: vector.Array([{"x": 1.0}])),
                     # inputs that already carry a behavior mapping: Awkward's global registry itself, or a mapping the caller owns
                     ("vector.Array(array with behavior=ak.behavior)", lambda: vector.Array(ak.Array([{"x": 1.0, "y": 2.0}], behavior=ak.behavior))),
                     ("vector.Array(list, behavior=ak.behavior)", lambda: vector.Array([{"x": 1.0, "y": 2.0}], behavior=ak.behavior)),
                     ("vector.Array(jagged momentum array with behavior=ak.behavior)",
                      lambda: vector.Array(ak.Array([[{"pt": 1.0, "phi": 2.0, "eta": 0.5, "mass": 0.1, "q": 1}], []], behavior=ak.behavior))),
                     ("vector.zip(columns with behavior=ak.behavior)",
                      lambda: vector.zip({"x": ak.Array([[1.0]], behavior=ak.behavior), "y": ak.Array([[2.0]], behavior=ak.behavior)})),
                     ("operations on ak.zip(with_name, behavior=merged global)",
                      lambda: ak.zip({"x": ak.Array([[1.0], []]), "y": ak.Array([[2.0], []])}, with_name="Vector2D",
                                     behavior=_merged_behavior()).rotateZ(0.5).rho),
                     ("ak.with_name on a vector array", lambda: ak.with_name(vector.zip({"x": [[1.0]], "y": [[2.0]]}), "Momentum2D").pt),
                     # lazy (dask-awkward) collections handed to the constructor, and computed afterwards
                     ("vector.Array(dask_awkward collection)", lambda: _dask_array(False)),
                     ("vector.Array(dask_awkward collection).compute()", lambda: _dask_array(True)),
                     ("repr", lambda: repr(vector.array({"x": [1.0, 2.0, 3.0], "y": [2.0, 3.0, 4.0]}))),
                     ("repr-obj", lambda: repr(vector.obj(pt=1.0, phi=2.0, eta=0.5, mass=0.1))),
                     ("str-awkward", lambda: str(vector.zip({"x": [[1.0], []], "y": [[2.0], []]}))),
                     ("show-awkward", lambda: vector.zip({"x": [[1.0], []], "y": [[2.0], []]}).tolist()),
                     ("ak.sum", lambda: __import__("awkward").sum(vector.zip({"x": [[1.0], []], "y": [[2.0], []]}), axis=1)),
                     ("numpy.sum", lambda: numpy.sum(vector.array({"x": [1.0], "y": [2.0]}))),
                     ("numpy.sum-axis", lambda: numpy.sum(vector.array({"x": [[1.0, 2.0]], "y": [[2.0, 3.0]], "z": [[2.0, 3.0]]}), axis=1, keepdims=True)),
                     ("numpy.sum-huge", lambda: numpy.sum(vector.array({"x": [1e308, 1e308], "y": [2.0, float("inf")], "z": [0.0, 1.0], "t": [-float("inf"), float("inf")]}))),
                     ("numpy.sum-bad-axis", lambda: numpy.sum(vector.array({"x": [1.0], "y": [2.0]}), axis=3)),
                     ("method-sum", lambda: vector.array({"rho": [1.0, 2.0], "phi": [2.0, 0.5], "eta": [0.0, 1.0], "tau": [1.0, 2.0]}).sum()),
                     ("numpy.count_nonzero", lambda: numpy.count_nonzero(vector.array({"x": [1.0, 0.0], "y": [2.0, 0.0]}))),
                     ("ak.count_nonzero", lambda: __import__("awkward").count_nonzero(vector.zip({"x": [[1.0], []], "y": [[2.0], []]}), axis=1)),
                     ("getitem", lambda: vector.array({"x": [1.0, 2.0], "y": [2.0, 3.0]})[1]),
                     ("pickle", lambda: __import__("pickle").loads(__import__("pickle").dumps(vector.array({"px": [1.0, 2.0], "py": [2.0, 3.0]})))),
                     ("like", lambda: vector.obj(x=1.0, y=2.0).like(vector.obj(x=1.0, y=2.0, z=3.0))),
                     ("allclose", lambda: vector.array({"x": [1.0], "y": [2.0]}).allclose(vector.array({"rho": [1.0], "phi": [2.0]})))):
        bracket(label, "constructor", f)
    tap.HOOKS.remove(hook)
    watch.uninstall()
    if snap.state_json(snap.process_state()) != full0:
        res.violation(f"C20/deep-process-state-changed config={cfg}", {"after_operation": "constructors", "diff": "see replay"})
    if snap.state_json(snap.registries_state()) != reg0:
        res.violation("C20/dispatch-maps-or-class-links-changed", {"config": cfg})
    if len(res.samples) < 2:
        res.sample({"part": "state", "config": cfg, "numpy.geterr": dict(numpy.geterr()), "warnings.filters": len(warnings.filters),
                    "dispatch_brackets": res.counters.get("dispatch_brackets", 0)})


def _first_diff(a, b):
    import json

    da, db = json.loads(a), json.loads(b)
    d = snap.diff(da, db)
    return d


def run_register(spec, tier, seed, res):
    import awkward

    import vector

    what = spec["what"]
    s0 = snap.process_state()
    res.evaluations += 1
    if what == "awkward":
        vector.register_awkward()
        s1 = snap.process_state()
        vector.register_awkward()
        s2 = snap.process_state()
        if snap.state_json(s1) != snap.state_json(s2):
            res.violation("C20/register_awkward-not-idempotent", {"diff": snap.diff(s1, s2)})
        if not vector._awkward_registered:
            res.violation("C20/register_awkward-does-not-register", {})
        changed = {k for k in s0 if snap.state_json(s0[k]) != snap.state_json(s1[k])}
        if not changed <= {"awkward.behavior", "vector._awkward_registered"}:
            res.violation("C20/register_awkward-changes-unrelated-state", {"changed": sorted(changed)})
        res.cell("register", "awkward")
    elif what == "numba":
        vector.register_numba()
        s1 = snap.process_state()
        r1 = snap.registries_state()
        vector.register_numba()
        s2 = snap.process_state()
        if snap.state_json(s1) != snap.state_json(s2) or snap.state_json(r1) != snap.state_json(snap.registries_state()):
            res.violation("C20/register_numba-not-idempotent", {"diff": snap.diff(s1, s2)})
        if snap.state_json(s0) != snap.state_json(s1):
            res.violation("C20/register_numba-changes-process-state", {"diff": snap.diff(s0, s1)})
        res.cell("register", "numba")
    else:
        # registered mode: operations still leave no trace
        vector.register_awkward()
        s1 = snap.state_json(snap.process_state())
        a = vector.zip({"x": [[1.0, 2.0], []], "y": [[3.0, 4.0], []], "z": [[0.5, 0.25], []]})
        named = awkward.zip({"pt": [1.0], "phi": [0.2], "eta": [0.3], "mass": [0.1]}, with_name="Momentum4D")
        for f in (lambda: a.rotateZ(0.1), lambda: a.add(a), lambda: a.to_rhophieta(), lambda: a[0, 0].unit(), lambda: named.to_xyzt(),
                  lambda: named.boostX(0.3), lambda: vector.Array([{"x": 1.0, "y": 2.0}]), lambda: a.add(named)):
            res.evaluations += 1
            try:
                out = f()
                if hasattr(out, "behavior") and out.behavior is not None and len(out.behavior) == 0:
                    pass
            except Exception as e:
                res.count("registered_mode_raises:" + type(e).__name__)
            if snap.state_json(snap.process_state()) != s1:
                res.violation("C20/global-state-changed-in-registered-awkward-mode", {"diff": _first_diff(s1, snap.state_json(snap.process_state()))})
                s1 = snap.state_json(snap.process_state())
        res.cell("register", "awkward-then-ops")
    res.sample({"part": "register", "what": what, "awkward.behavior_entries": len(awkward.behavior)})


class Injected(Exception):
    pass


def run_failpoints(spec, tier, seed, res):
    """raise from inside every dispatch function, at every line, and check restoration"""
    import vector

    tap.install()
    mon = sys.monitoring
    TOOL = mon.DEBUGGER_ID
    try:
        mon.use_tool_id(TOOL, "vmon-failpoints")
    except ValueError:
        TOOL = mon.PROFILER_ID
        mon.use_tool_id(TOOL, "vmon-failpoints")
    state = {"code": None, "target": None, "hits": 0, "fired": False}

    def on_line(code, line):
        if code is state["code"] and not state["fired"]:
            if line == state["target"]:
                state["fired"] = True
                state["hits"] += 1
                raise Injected(f"{code.co_filename}:{line}")
        return None

    mon.register_callback(TOOL, mon.events.LINE, on_line)
    r = gen.rng(seed, "C20fail", spec["pkg"])
    for modname, m in sorted(tap.compute_modules().items()):
        if not modname.startswith(spec["pkg"] + "."):
            continue
        orig = getattr(m.dispatch, "__wrapped__", m.dispatch)
        code = orig.__code__
        lines = sorted({ln for _, _, ln in code.co_lines() if ln is not None and ln > code.co_firstlineno})
        opname = modname.split(".")[1]
        # a public call that reaches this dispatch
        call = _call_for_module(opname, spec["pkg"], r)
        if call is None:
            res.count("no_public_call_for_module")
            continue
        # first make sure the un-injected call returns
        try:
            call()
        except Exception as e:
            res.count("baseline_call_raises:" + type(e).__name__)
            continue
        numpy.seterr(divide="warn", over="raise", under="ignore", invalid="call")
        numpy.seterrcall(lambda *a: None)
        for ln in lines:
            before = (cheap_state(), dict(numpy.geterr()))
            state.update(code=code, target=ln, fired=False)
            mon.set_local_events(TOOL, code, mon.events.LINE)
            res.evaluations += 1
            try:
                call()
                outcome = "returned"
            except Injected:
                outcome = "injected"
            except Exception as e:
                outcome = type(e).__name__
            finally:
                mon.set_local_events(TOOL, code, 0)
            after = (cheap_state(), dict(numpy.geterr()))
            res.count("failpoint:" + outcome)
            if before != after:
                res.violation(f"C20/global-state-not-restored-after-exception-inside-dispatch module={modname}",
                              {"line": ln, "before": repr(before), "after": repr(after), "outcome": outcome})
            if outcome == "injected":
                res.cell("failpoint", modname, ln)
    mon.register_callback(TOOL, mon.events.LINE, None)
    mon.free_tool_id(TOOL)
    res.sample({"part": "failpoints", "package": spec["pkg"], "injected": res.counters.get("failpoint:injected", 0)})


def _call_for_module(opname, pkg, r):
    """a public call on numpy vectors that goes through vector._compute.<pkg>.<opname>.dispatch"""
    dim = {"planar": 2, "spatial": 3, "lorentz": 4}[pkg]
    system = R.SYSTEMS[dim][r.randrange(len(R.SYSTEMS[dim]))]
    rows = []
    while len(rows) < 3:
        rv, _ = gen.vec4(r, core=True, causal="timelike", forward=True) if dim == 4 else gen.vec(r, dim, core=True)
        try:
            rows.append(LVec(rv, system, True).f64()[0])
        except R.NotRepresentable:
            pass
    v = B.mk_numpy_cls(system, rows, True)
    b3 = B.mk_numpy_cls(("xy", "z"), [(0.1, 0.2, 0.3)] * 3, False)
    table = {
        "x": lambda: v.x, "y": lambda: v.y, "rho": lambda: v.rho, "rho2": lambda: v.rho2, "phi": lambda: v.phi, "z": lambda: v.z,
        "theta": lambda: v.theta, "eta": lambda: v.eta, "costheta": lambda: v.costheta, "cottheta": lambda: v.cottheta, "mag": lambda: v.mag,
        "mag2": lambda: v.mag2, "t": lambda: v.t, "t2": lambda: v.t2, "tau": lambda: v.tau, "tau2": lambda: v.tau2, "beta": lambda: v.beta,
        "gamma": lambda: v.gamma, "rapidity": lambda: v.rapidity, "Et": lambda: v.Et, "Et2": lambda: v.Et2, "Mt": lambda: v.Mt, "Mt2": lambda: v.Mt2,
        "add": lambda: v.add(v), "subtract": lambda: v.subtract(v), "dot": lambda: v.dot(v), "equal": lambda: v.equal(v),
        "not_equal": lambda: v.not_equal(v), "isclose": lambda: v.isclose(v), "scale": lambda: v.scale(2.0), "unit": lambda: v.unit(),
        "deltaphi": lambda: v.deltaphi(v), "rotateZ": lambda: v.rotateZ(0.1), "transform2D": lambda: v.transform2D({"xx": 1.0, "xy": 2.0, "yx": 3.0, "yy": 4.0}),
        "is_parallel": lambda: v.is_parallel(v), "is_antiparallel": lambda: v.is_antiparallel(v), "is_perpendicular": lambda: v.is_perpendicular(v),
        "cross": lambda: v.cross(v), "deltaR": lambda: v.deltaR(v), "deltaR2": lambda: v.deltaR2(v), "deltaangle": lambda: v.deltaangle(v),
        "deltaeta": lambda: v.deltaeta(v), "rotateX": lambda: v.rotateX(0.1), "rotateY": lambda: v.rotateY(0.1), "rotate_axis": lambda: v.rotate_axis(v, 0.1),
        "rotate_euler": lambda: v.rotate_euler(0.1, 0.2, 0.3), "rotate_quaternion": lambda: v.rotate_quaternion(0.5, 0.5, 0.5, 0.5),
        "transform3D": lambda: v.transform3D({a + b: 1.0 for a in "xyz" for b in "xyz"}),
        "boost_p4": lambda: v.boost_p4(v), "boost_beta3": lambda: v.boost_beta3(b3), "boostX_beta": lambda: v.boostX(beta=0.2), "boostX_gamma": lambda: v.boostX(gamma=1.2),
        "boostY_beta": lambda: v.boostY(beta=0.2), "boostY_gamma": lambda: v.boostY(gamma=1.2), "boostZ_beta": lambda: v.boostZ(beta=0.2),
        "boostZ_gamma": lambda: v.boostZ(gamma=1.2), "deltaRapidityPhi": lambda: v.deltaRapidityPhi(v), "deltaRapidityPhi2": lambda: v.deltaRapidityPhi2(v),
        "is_timelike": lambda: v.is_timelike(), "is_spacelike": lambda: v.is_spacelike(), "is_lightlike": lambda: v.is_lightlike(),
        "to_beta3": lambda: v.to_beta3(), "transform4D": lambda: v.transform4D({a + b: 1.0 for a in "xyzt" for b in "xyzt"}),
    }
    return table.get(opname)


# ---------------------------------------------------------------------------
# thread determinism

def fingerprint(x):
    import awkward as ak
    from vector.backends.object import VectorObject

    if isinstance(x, BaseException):
        return ("exc", type(x).__name__, str(x)[:80])
    if isinstance(x, tuple):
        return ("tuple",) + tuple(fingerprint(e) for e in x)
    if isinstance(x, VectorObject):
        s, st = B.obj_stored(x)
        return ("obj", type(x).__name__, s, tuple(B.bits(v) for v in st))
    if isinstance(x, (ak.Array, ak.Record)):
        sn = snap.snap_awkward(x)
        return ("ak", sn["type"], tuple(sorted(sn["buffers"].items())))
    if isinstance(x, numpy.ndarray):
        a = numpy.asarray(x).view(numpy.ndarray)
        return ("np", type(x).__name__, str(a.dtype), a.shape, a.tobytes())
    return ("scalar", B.bits(x) if isinstance(x, (float, numpy.floating)) else repr(x))


EXTRA_NAMES = ("charge", None, "index", "w3", None, "iso", "charge", "tag")


def build_call_list(seed, k):
    """K closures over *shared* operands (purity means sharing is safe)"""
    r = gen.rng(seed, "C20threads")
    calls = []
    names = list(C.OPS)
    while len(calls) < k:
        op = C.OPS[r.choice(names)]
        dim = r.choice(op.dims)
        odims = op.other_dims(dim) if op.other_dims else (None,)
        odim = odims[r.randrange(len(odims))]
        s_self = R.SYSTEMS[dim][r.randrange(len(R.SYSTEMS[dim]))]
        s_other = R.SYSTEMS[odim][r.randrange(len(R.SYSTEMS[odim]))] if odim else None
        draws = W.make_batch(op, dim, r, 4, odim=odim, momentum=op.momentum_only or r.random() < 0.5)
        try:
            cases = [W.instantiate(d, s_self, s_other, "zyx" if "order" in op.args else None) for d in draws]
        except R.NotRepresentable:
            continue
        kind = r.choice(["object", "numpy", "awkward", "object", "numpy"])
        plain = [E._conv_scalar(a, float) if not isinstance(a, LVec) else None for a in cases[0][1]]

        def mk(ls, kind=kind):
            rows = [l.f64()[0] for l in ls]
            if kind == "object":
                return B.mk_obj(ls[0].system, rows[0], ls[0].momentum)
            if kind == "numpy":
                return B.mk_numpy_cls(ls[0].system, rows, ls[0].momentum)
            me = ls[0].momentum and any(B.MOM_SPELL[x] for x in R.field_names(ls[0].system))
            arr = awk.build(ls[0].system, rows, me, [[0, 1], [], [2, 3]], route="zip")
            # a non-coordinate field whose *name* differs from call to call (charge, index, w3, ...): nothing a call
            # does with one array's extra fields may show in another call's result
            import awkward as ak
            nm = EXTRA_NAMES[len(calls) % len(EXTRA_NAMES)]
            if nm:
                arr = ak.with_field(arr, arr[ak.fields(arr)[0]] * 0 + len(calls), where=nm)
            return arr
        try:
            v = mk([c[0] for c in cases])
            a = list(plain)
            for j, a0 in enumerate(cases[0][1]):
                if isinstance(a0, LVec):
                    a[j] = mk([c[1][j] for c in cases])
        except Exception:
            continue
        if r.random() < 0.1 and any(isinstance(x, LVec) for x in cases[0][1]):
            a = [3.5 if isinstance(x0, LVec) else y for x0, y in zip(cases[0][1], a)]  # a call that raises TypeError
        calls.append((f"{op.name}/{dim}/{kind}", (lambda op=op, v=v, a=a: op.call(v, *a))))
        if kind == "numpy" and r.random() < 0.5:
            red = r.choice([("numpy.sum", lambda v=v: numpy.sum(v)), ("sum(axis=0,keepdims)", lambda v=v: v.sum(axis=0, keepdims=True)),
                            ("numpy.count_nonzero", lambda v=v: numpy.count_nonzero(v)), ("repr", lambda v=v: repr(v)), ("getitem", lambda v=v: v[1:3])])
            calls.append((f"{red[0]}/{dim}/numpy", red[1]))
        elif kind == "awkward" and r.random() < 0.5:
            import awkward as ak
            red = r.choice([("ak.sum", lambda v=v: ak.sum(v, axis=1)), ("ak.count_nonzero", lambda v=v: ak.count_nonzero(v, axis=1)),
                            ("getitem", lambda v=v: v[0]), ("str", lambda v=v: str(v))])
            calls.append((f"{red[0]}/{dim}/awkward", red[1]))
    return calls


def build_contention_list(seed, nargs=16, small=False):
    """calls that share operation, backend and operands but differ in their non-array arguments: threads running them
    at the same time are inside the same compute function (and the same cached wrappers) with different scalars"""
    r = gen.rng(seed, "C20contend")
    calls = []
    for kind in (("awkward", "numpy") if small else ("awkward", "numpy", "object")):
        for dim in ((3, 4) if small else (2, 3, 4)):
            system = R.SYSTEMS[dim][r.randrange(len(R.SYSTEMS[dim]))]
            rows = []
            while len(rows) < 4:
                rv, _ = gen.vec4(r, core=True, causal="timelike", forward=True) if dim == 4 else gen.vec(r, dim, core=True)
                try:
                    rows.append(LVec(rv, system, False).f64()[0])
                except R.NotRepresentable:
                    pass
            if kind == "object":
                v = B.mk_obj(system, rows[0], False)
                o = B.mk_obj(system, rows[1], False)
            elif kind == "numpy":
                v = B.mk_numpy_cls(system, rows, False)
                o = B.mk_obj(system, rows[1], False)
            else:
                v = awk.build(system, rows, False, [[0, 1], [], [2, 3]], route="zip")
                o = B.mk_obj(system, rows[1], False)
            fams = [("scale", lambda a, v=v: v.scale(a)), ("rotateZ", lambda a, v=v: v.rotateZ(a)), ("scale2D", lambda a, v=v: v.scale2D(a)),
                    ("add-scaled-object", lambda a, v=v, o=o: v.add(o.scale(a))), ("isclose-rtol", lambda a, v=v, o=o: v.isclose(o, rtol=a))]
            if dim >= 3:
                fams += [("rotateX", lambda a, v=v: v.rotateX(a)), ("rotate_euler", lambda a, v=v: v.rotate_euler(a, 2 * a, 0.5 * a, "yzx")),
                         ("to_xyz-then-scale3D", lambda a, v=v: v.scale3D(a))]
            if dim == 4:
                fams += [("boostZ", lambda a, v=v: v.boostZ(beta=a / 4)), ("boostX-gamma", lambda a, v=v: v.boostX(gamma=1 + a)),
                         ("is_timelike-tol", lambda a, v=v: v.is_timelike(a)), ("boost_beta3-object", lambda a, v=v: v.boost_beta3(vector_obj3(a)))]
            if kind == "awkward":
                import awkward as ak

                def proj(a, v=v, dim=dim):
                    w = ak.with_field(v, v[ak.fields(v)[0]] * 0 + a, where=f"extra{int(a * 16)}")
                    return (w.to_Vector2D(), w.to_Vector3D() if dim >= 3 else None, w.rotateZ(a))
                fams.append(("projections-with-differently-named-extra-fields", proj))
            if small:
                fams = fams[::2] + ([fams[-1]] if kind == "awkward" and fams[-1] not in fams[::2] else [])
            for fname, f in fams:
                for i in range(nargs):
                    a = 0.125 + 0.0625 * i
                    calls.append((f"{fname}/{dim}/{kind}/{a}", (lambda f=f, a=a: f(a))))
    return calls


def vector_obj3(a):
    import vector

    return vector.obj(x=a / 8, y=-a / 16, z=a / 4)


def run_threads(spec, tier, seed, res):
    mode = spec["mode"]
    nthreads = 16
    if mode == "lazy-import":
        return run_lazy_import(spec, tier, seed, res)
    tap.install()
    K = 120 if tier == "quick" else 400
    if mode == "contend":
        calls = build_contention_list(seed + spec["rep"], small=(tier == "quick"))
        K = len(calls)
    else:
        calls = build_call_list(seed + spec["rep"], K)
    calls = [(f"{i}:{nm}", f) for i, (nm, f) in enumerate(calls)]

    def run_one(f):
        try:
            return f()
        except Exception as e:
            return e
    sequential = [fingerprint(run_one(f)) for _, f in calls]
    # second sequential pass: the calls are deterministic at all
    again = [fingerprint(run_one(f)) for _, f in calls]
    for i, (a, b) in enumerate(zip(sequential, again)):
        if a != b:
            res.violation("C20/sequential-rerun-differs", {"call": calls[i][0]})
    # purity under history: the same calls on *freshly built* operands (new objects, possibly recycled ids), after the
    # first list and its results were dropped, give bit-identical results (catches memoisation keyed by identity)
    import gc

    old_ids = [id(f) for _, f in calls]
    calls2 = None
    del calls
    gc.collect()
    calls = build_contention_list(seed + spec["rep"], small=(tier == "quick")) if mode == "contend" else build_call_list(seed + spec["rep"], K)
    calls = [(f"{i}:{nm}", f) for i, (nm, f) in enumerate(calls)]
    rebuilt = [fingerprint(run_one(f)) for _, f in calls]
    for i, (a, b) in enumerate(zip(sequential, rebuilt)):
        res.evaluations += 1
        if a != b:
            res.violation("C20/result-depends-on-call-history-or-object-identity", {"call": calls[i][0], "first": repr(a)[:160], "rebuilt": repr(b)[:160]})
    # ... and in another order: a pure function's result cannot depend on which calls came before it
    order = list(range(len(calls)))
    gen.rng(seed, "C20order", spec["rep"]).shuffle(order)
    reordered = {}
    for i in reversed(order):
        reordered[i] = fingerprint(run_one(calls[i][1]))
    for i, a in enumerate(sequential):
        res.evaluations += 1
        if reordered[i] != a:
            res.violation("C20/result-depends-on-the-order-of-earlier-calls", {"call": calls[i][0], "first": repr(a)[:160], "reordered": repr(reordered[i])[:160]})
    res.cell("history-independence", mode, spec["rep"])
    # ---- instrumentation: intervals per dispatch, yield injection inside vector frames
    intervals = []  # (thread id, module, t_enter, t_exit), appended under the GIL (list.append is atomic)

    class IntervalHook:
        def enter(self, mod, args):
            return time.perf_counter_ns()

        def exit(self, mod, args, token, result, exc):
            intervals.append((threading.get_ident(), mod, token, time.perf_counter_ns()))
    hook = IntervalHook()
    tap.HOOKS.append(hook)
    mon = sys.monitoring
    TOOL = mon.PROFILER_ID
    mon.use_tool_id(TOOL, "vmon-yield")
    rr = gen.rng(seed, "yield", spec["rep"])
    thresholds = [rr.random() for _ in range(4096)]
    counter = [0]
    yields = [0]
    vector_src = os.path.join(os.environ.get("VERIF_REPO", "/repo"), "src", "vector")
    decided = {}

    def on_line(code, line):
        ok = decided.get(code)
        if ok is None:
            ok = decided[code] = code.co_filename.startswith(vector_src)
        if not ok:
            return mon.DISABLE
        c = counter[0] = (counter[0] + 1) & 4095
        if thresholds[c] < 0.08:
            yields[0] += 1
            time.sleep(0)
        return None

    mon.register_callback(TOOL, mon.events.LINE, on_line)
    old_switch = sys.getswitchinterval()
    results = [None] * nthreads
    errstates = [None] * nthreads
    barrier = threading.Barrier(nthreads)

    def worker(ti):
        numpy.seterr(divide="warn", over="raise", under="ignore", invalid="warn")  # thread-local in NumPy >= 2 
        if mode == "contend":
            # same 16-call family at the same time in every thread, each thread on a different argument
            mine = []
            for g in range(0, len(calls), 16):
                fam = calls[g:g + 16]
                mine.extend(fam[(ti + k) % len(fam)] for k in range(len(fam)))
        else:
            mine = calls if mode == "whole" else calls[ti::nthreads]
        barrier.wait()
        out = [(nm, fingerprint(run_one(f))) for nm, f in mine]
        results[ti] = out
        errstates[ti] = dict(numpy.geterr())

    global_before = ([repr(x) for x in warnings.filters], cheap_state(), snap.state_json(snap.process_state()))
    try:
        sys.setswitchinterval(1e-6)
        mon.set_events(TOOL, mon.events.LINE)
        ts = [threading.Thread(target=worker, args=(i,)) for i in range(nthreads)]
        t0 = time.time()
        for t in ts:
            t.start()
        for t in ts:
            t.join(timeout=900)
        wall = time.time() - t0
    finally:
        mon.set_events(TOOL, 0)
        mon.register_callback(TOOL, mon.events.LINE, None)
        mon.free_tool_id(TOOL)
        sys.setswitchinterval(old_switch)
        tap.HOOKS.remove(hook)
    if any(t.is_alive() for t in ts):
        res.inconc("thread stress did not finish within the watchdog")
        return
    global_after = ([repr(x) for x in warnings.filters], cheap_state(), snap.state_json(snap.process_state()))
    res.evaluations += 1
    if global_after != global_before:
        what = "warnings-filters" if global_after[0] != global_before[0] else "process-state"
        res.violation(f"C20/global-state-changed-by-concurrent-calls what={what}",
                      {"mode": mode, "filters_before": len(global_before[0]), "filters_after": len(global_after[0]),
                       "diff": _first_diff(global_before[2], global_after[2]) if global_after[2] != global_before[2] else None})
    want_err = {"divide": "warn", "over": "raise", "under": "ignore", "invalid": "warn"}
    seq_by_name = {c[0]: fp for c, fp in zip(calls, sequential)}
    for ti in range(nthreads):
        if results[ti] is None:
            res.violation("C20/thread-died", {"thread": ti})
            continue
        res.evaluations += len(results[ti])
        for nm, a in results[ti]:
            b = seq_by_name[nm]
            if a != b:
                res.violation("C20/concurrent-result-differs-from-sequential", {"call": nm, "thread": ti, "mode": mode,
                                                                                 "concurrent": repr(a)[:200], "sequential": repr(b)[:200]})
        if errstates[ti] != want_err:
            res.violation("C20/thread-local-numpy-error-state-changed", {"thread": ti, "got": errstates[ti], "expected": want_err})
    # ---- what the monitors actually observed
    iv = sorted(intervals, key=lambda x: x[2])
    overlaps = 0
    pairs = set()
    active = []
    for tid, mod, t0_, t1_ in iv:
        active = [(a, m, e) for (a, m, e) in active if e > t0_]
        for a, m, e in active:
            if a != tid:
                overlaps += 1
                pairs.add((min(a, tid), max(a, tid), min(m, mod), max(m, mod)))
        active.append((tid, mod, t1_))
    res.count("dispatch_intervals", len(iv))
    res.count("overlapping_dispatch_intervals", overlaps)
    res.count("distinct_thread_pair_x_operation_pair_overlaps", len(pairs))
    res.count("yields_injected_inside_vector_frames", yields[0])
    for p in list(pairs)[:4000]:
        res.cell("overlap", p[2], p[3])
    res.cell("threads", mode, spec["rep"])
    if overlaps < 50:
        res.inconc(f"thread stress produced only {overlaps} overlapping dispatch intervals")
    res.sample({"part": "threads", "mode": mode, "calls": len(calls), "threads": nthreads, "dispatch_intervals": len(iv),
                "overlapping_intervals": overlaps, "distinct_overlap_kinds": len(pairs), "yields_injected": yields[0], "wall_s": round(wall, 2),
                "first_calls": [c[0] for c in calls[:5]]})


def run_lazy_import(spec, tier, seed, res):
    """fresh interpreter: 16 threads race on the first imports of vector._compute.* made lazily inside methods"""
    import subprocess

    code = r'''
import sys, threading, json
sys.path.insert(0, sys.argv[1])
import vector, numpy
sys.setswitchinterval(1e-6)
n = 16
barrier = threading.Barrier(n)
out = [None] * n
v = vector.obj(x=1.5, y=-2.5, z=0.75, t=9.0)
w = vector.obj(rho=2.0, phi=0.5, eta=-0.25, tau=3.0)
arr = vector.array({"x": [1.0, 2.0], "y": [0.5, -0.5], "z": [3.0, 4.0], "t": [9.0, 10.0]})
v2 = vector.obj(x=0.5, y=1.5)
w2 = vector.obj(rho=2.0, phi=-0.5)
calls = [lambda: v.boost_p4(w).x, lambda: v.rotate_euler(0.1, 0.2, 0.3, "yxz").y, lambda: v.deltaR(w), lambda: v.to_rhophietatau().tau,
         lambda: (v + w).t, lambda: v.rapidity, lambda: float(arr.boostZ(beta=0.3).t[1]), lambda: float(arr.deltaRapidityPhi(arr[::-1])[0]),
         lambda: v.is_timelike(), lambda: v.to_Vector3D().cross(w.to_Vector3D()).z, lambda: (v - w).z, lambda: v @ w, lambda: (v2 + w2).x,
         lambda: v2 @ w2, lambda: (v.to_Vector3D() - w.to_Vector3D()).y, lambda: float((arr + arr[::-1]).x[0]), lambda: float((arr @ arr)[1])]
def work(i):
    barrier.wait()
    try:
        # every thread starts at a different call: the first use of each lazily imported package races against first uses made
        # through other entry points (a method's own import statement, the operator path, an array's ufunc path)
        k = (i * 5) % len(calls)
        order = list(range(k, len(calls))) + list(range(k))
        r = [None] * len(calls)
        for j in order:
            r[j] = calls[j]()
        out[i] = [x.hex() if isinstance(x, float) else repr(x) for x in map(lambda q: float(q) if not isinstance(q, (bool, numpy.bool_)) else bool(q), r)]
    except BaseException as e:
        out[i] = ["EXC", type(e).__name__, str(e)[:200]]
ts = [threading.Thread(target=work, args=(i,)) for i in range(n)]
[t.start() for t in ts]; [t.join() for t in ts]
print(json.dumps(out))
'''
    import json

    src = os.path.join(os.environ.get("VERIF_REPO", "/repo"), "src")
    outs = []
    for rep in range(3 if tier == "quick" else 10):
        res.evaluations += 1
        try:
            p = subprocess.run([sys.executable, "-c", code, src], capture_output=True, text=True, timeout=300)
        except subprocess.TimeoutExpired:
            res.inconc("lazy-import race timed out")
            return
        if p.returncode != 0:
            res.violation("C20/lazy-import-race-crashes", {"stderr": p.stderr[-400:]})
            return
        out = json.loads(p.stdout.strip().splitlines()[-1])
        outs.append(out)
        first = out[0]
        for i, o in enumerate(out):
            if o != first or (o and o[0] == "EXC"):
                res.violation("C20/racing-first-imports-give-different-results", {"thread": i, "got": o, "thread0": first})
                break
        res.cell("threads", "lazy-import", rep + 10 * spec["rep"])
    if outs and any(o[0] != outs[0][0] for o in outs):
        res.violation("C20/fresh-processes-disagree", {})
    res.sample({"part": "threads", "mode": "lazy-import", "results_thread0": outs[0][0] if outs else None})


def run_order(spec, tier, seed, res):
    """order independence across *fresh processes*: the same call list is run by several shards (each shard is a new
    interpreter), each in its own order; finalize() compares call i between them.  State that freezes at the first call
    of a process (a module-level table filled by whoever comes first) is invisible inside one process and shows here."""
    import hashlib

    K = 120 if tier == "quick" else 300
    # (the contention list first: its projection family carries sixteen differently named extra fields, so whichever call
    #  comes first in a process differs between the orders whatever the seed put into the other list)
    lists = [("contend", build_contention_list(seed + spec["rep"], small=True)), ("whole", build_call_list(seed + spec["rep"], K))]
    for lname, calls in lists:
        idx = list(range(len(calls)))
        if spec["order"] == "reverse":
            idx.reverse()
        elif spec["order"] != "forward":
            gen.rng(seed, "C20fresh", spec["order"], spec["rep"]).shuffle(idx)
        for i in idx:
            nm, f = calls[i]
            try:
                out = f()
            except Exception as e:
                out = e
            res.evaluations += 1
            fp = hashlib.sha1(repr(fingerprint(out)).encode()).hexdigest()[:16]
            res.add_to("fresh_process_order", f"{spec['rep']}|{lname}|{i}|{nm}|{spec['order']}|{fp}")
    res.cell("fresh-process-order", spec["order"], spec["rep"])


def run_shard(spec, tier, seed):
    res = Result()
    {"state": run_state, "register": run_register, "failpoints": run_failpoints, "threads": run_threads,
     "order": run_order}[spec["part"]](spec, tier, seed, res)
    return res


def finalize(total, tier, seed):
    c = total.counters
    by_call = {}
    for e in total.sets.get("fresh_process_order", ()):
        rep, lname, i, nm, order, fp = e.split("|")
        by_call.setdefault((rep, lname, i, nm), {})[order] = fp
    compared = 0
    for key, d in sorted(by_call.items()):
        if len(d) >= 2:
            compared += 1
            if len(set(d.values())) > 1:
                total.violation("C20/result-depends-on-the-order-of-calls-in-a-fresh-process", {"call": key[3], "list": key[1], "orders": d})
    c["fresh_process_order_calls_compared"] = compared
    if compared < 100:
        total.inconc(f"only {compared} calls compared between fresh processes running them in different orders")
    if c.get("dispatch_brackets", 0) < 5000:
        total.inconc(f"only {c.get('dispatch_brackets', 0)} dispatches were bracketed by the state hook")
    if c.get("dispatch_brackets_on_exception", 0) < 1:
        total.inconc("no dispatch exited through an exception under the state hook")
    if c.get("failpoint:injected", 0) < 300:
        total.inconc(f"only {c.get('failpoint:injected', 0)} failpoints fired")
    mods = {x.split("|")[1] for x in total.cells if x.startswith("failpoint|")}
    if len(mods) < 78:
        total.inconc(f"failpoints reached only {len(mods)} of 82 dispatch functions")
    return {"dispatch_brackets": c.get("dispatch_brackets", 0), "failpoints_fired": c.get("failpoint:injected", 0),
            "failpoint_modules": len(mods), "overlapping_dispatch_intervals": c.get("overlapping_dispatch_intervals", 0),
            "distinct_overlap_kinds": c.get("distinct_thread_pair_x_operation_pair_overlaps", 0),
            "yields_injected": c.get("yields_injected_inside_vector_frames", 0),
            "outcomes": {k: v for k, v in c.items() if k.startswith("outcome:")}}
