"""C15 — in-place updates of object vectors match their functional equivalents.

History checker: random histories of coordinate assignments (every coordinate
of every group, geometric and momentum spellings), in-place operators with
operands of any coordinate system and flavor, and deliberately failing steps,
on float64 and 60-digit object vectors (SymPy vectors: assignments only).
After every step the stored slots are compared with an explicit model of them
(DESIGN §3 C15).
"""
from __future__ import annotations

import copy

import mpmath
import numpy
from mpmath import mpf

from .. import backends as B
from .. import engine as E
from .. import gen
from .. import refmodel as R
from ..engine import LVec
from ..mplib import Q
from ..verdict import Result

LEVEL = "exploration"
RULE = ("random histories (length <= 12 quick / <= 60 thorough) from every starting coordinate system x flavor x {float64, "
        "60-digit}: steps are assignments to any coordinate of any group through geometric or momentum spellings, += -= *= /= "
        "with operands in any system/flavor, and failing steps (other dimension, non-vector operand, vector factor, division by "
        "zero). A cell is (step kind, coordinate or operator, stored system before, backend); non-trivial when the step was "
        "executed and all slots were compared with the model")
ASSUMPTIONS = [
    "model: assigning a coordinate replaces its group by (assigned value, partner as read immediately before) in the coordinate "
    "type the name denotes; other groups keep their slot objects; in-place operators store the functional result read in the target's own system",
    "reference-model comparison of in-place operators only when the exact result is representable in the target's system",
]
SHARD_TIMEOUT = {"quick": 900, "thorough": 7200}
NHIST = {"quick": 60, "thorough": 3000}
LEN = {"quick": 12, "thorough": 60}
GROUP = {"x": 0, "y": 0, "rho": 0, "phi": 0, "z": 1, "theta": 1, "eta": 1, "t": 2, "tau": 2}
PARTNER = {"x": "y", "y": "x", "rho": "phi", "phi": "rho"}
AZTYPE = {"x": "xy", "y": "xy", "rho": "rhophi", "phi": "rhophi"}
SPELL = {"x": ["x", "px"], "y": ["y", "py"], "rho": ["rho", "pt"], "phi": ["phi"], "z": ["z", "pz"], "theta": ["theta"], "eta": ["eta"],
         "t": ["t", "E", "e", "energy"], "tau": ["tau", "M", "m", "mass"]}


def plan(tier, seed):
    return [{"system": list(s), "mode": m} for s in R.ALL_SYSTEMS for m in ("f64", "mp")] + [{"sympy": True}]


def _slots(v):
    return [getattr(v, p) for p in ("azimuthal", "longitudinal", "temporal") if hasattr(v, p)]


def _same(a, b):
    return a is b or B.same_bits(a, b)


def run_sympy(tier, seed):
    import sympy

    import vector

    res = Result()
    r = gen.rng(seed, "C15sympy")
    for system in R.ALL_SYSTEMS:
        dim = len(system) + 1
        for mom in (False, True):
            cls = getattr(vector, ("MomentumSympy" if mom else "VectorSympy") + f"{dim}D")
            names = R.field_names(system)
            v = cls(**{n: sympy.Symbol(n + "0", real=True) for n in names})
            cur = list(system)
            for step in range(8):
                g = r.choice([c for c, gi in GROUP.items() if gi < dim - 1])
                name = r.choice(SPELL[g] if mom else SPELL[g][:1])
                val = sympy.Symbol(f"s{step}", real=True)
                before = [getattr(v, p) for p in ("azimuthal", "longitudinal", "temporal") if hasattr(v, p)]
                res.evaluations += 1
                try:
                    setattr(v, name, val)
                except Exception as e:
                    res.violation(f"C15/sympy-assignment-raises coordinate={name}", {"system": R.sysname(tuple(cur)), "exc": repr(e)[:200]})
                    break
                gi = GROUP[g]
                cur[gi] = AZTYPE[g] if gi == 0 else g
                after = [getattr(v, p) for p in ("azimuthal", "longitudinal", "temporal") if hasattr(v, p)]
                got = getattr(v, g)
                if got != val:
                    res.violation(f"C15/sympy-assigned-coordinate-does-not-read-back coordinate={name}", {"got": sympy.srepr(got)})
                for k, (a, b) in enumerate(zip(before, after)):
                    if k != gi and a is not b:
                        res.violation(f"C15/sympy-other-group-replaced coordinate={name}", {"group": k})
                tname = type(after[gi]).__name__.lower()
                want = {"xy": "xy", "rhophi": "rhophi"}.get(cur[gi], cur[gi])
                if want not in tname:
                    res.violation(f"C15/sympy-wrong-coordinate-type-after-assignment coordinate={name}", {"type": type(after[gi]).__name__, "expected": want})
                res.cell("sympy-assign", name, R.sysname(system))
    # ---- in-place operators on symbolic vectors: identity, class and coordinate system kept, stored expressions are
    #      the functional result read in the target's own system
    for system in R.ALL_SYSTEMS:
        dim = len(system) + 1
        names = R.field_names(system)
        for mom in (False, True):
            cls = getattr(vector, ("MomentumSympy" if mom else "VectorSympy") + f"{dim}D")
            for osys in (R.SYSTEMS[dim][0], R.SYSTEMS[dim][-1], system):
                ocls = getattr(vector, f"VectorSympy{dim}D")
                onames = R.field_names(osys)
                for opn in ("+=", "-=", "*=", "/="):
                    v = cls(**{n: sympy.Symbol(n + "_a", real=True) for n in names})
                    twin = cls(**{n: sympy.Symbol(n + "_a", real=True) for n in names})
                    w = ocls(**{n: sympy.Symbol(n + "_b", real=True) for n in onames})
                    k = sympy.Rational(3, 2)
                    res.evaluations += 1
                    try:
                        functional = {"+=": lambda: twin + w, "-=": lambda: twin - w, "*=": lambda: twin * k, "/=": lambda: twin / k}[opn]()
                        ident = id(v)
                        v2 = v
                        if opn == "+=":
                            v2 += w
                        elif opn == "-=":
                            v2 -= w
                        elif opn == "*=":
                            v2 *= k
                        else:
                            v2 /= k
                    except Exception as e:
                        res.violation(f"C15/sympy-inplace-operator-raises operator={opn}", {"system": R.sysname(system), "exc": f"{type(e).__name__}: {e}"[:200]})
                        continue
                    if v2 is not v or id(v) != ident or type(v) is not cls:
                        res.violation(f"C15/sympy-inplace-operator-identity-or-class operator={opn}", {"system": R.sysname(system), "got": type(v2).__name__})
                        continue
                    parts = [getattr(v, p) for p in ("azimuthal", "longitudinal", "temporal") if hasattr(v, p)]
                    stored = [e for p in parts for e in p.elements]
                    tnames = "".join(type(p).__name__.lower() for p in parts)
                    want_sys_ok = all(key in tnames for key in [{"xy": "xy", "rhophi": "rhophi"}[system[0]]] + [s_ for s_ in system[1:]])
                    if not want_sys_ok:
                        res.violation(f"C15/sympy-inplace-operator-changes-coordinate-system operator={opn}", {"system": R.sysname(system), "types": tnames})
                        continue
                    want = [getattr(functional, nm) for nm in names]
                    if [sympy.srepr(sympy.sympify(a)) for a in stored] != [sympy.srepr(sympy.sympify(b)) for b in want]:
                        res.violation(f"C15/sympy-inplace-result-differs-from-functional-result operator={opn}",
                                      {"system": R.sysname(system), "other": R.sysname(osys), "stored": [str(a)[:80] for a in stored], "functional": [str(b)[:80] for b in want]})
                    res.cell("sympy-inplace", opn, R.sysname(system))
    res.sample({"sympy": True})
    return res


def run_shard(spec, tier, seed):
    if spec.get("sympy"):
        return run_sympy(tier, seed)
    import vector

    res = Result()
    system0 = tuple(spec["system"])
    dim = len(system0) + 1
    mp_mode = spec["mode"] == "mp"
    r = gen.rng(seed, "C15", R.sysname(system0), spec["mode"])
    num = (lambda x: Q(mpf(x))) if mp_mode else float
    bk = spec["mode"]

    def V(mech, hist, **d):
        res.violation(f"C15/{mech}", {"start": R.sysname(system0), "backend": bk, "history": hist[-8:], **d})

    def mkvec(rv, system, mom):
        l = LVec(rv, system, mom)
        l.exact_coords()
        return (E.mat_mp(l) if mp_mode else E.mat_obj(l)), l

    def genv(d, system):
        if d == 4:
            return gen.vec4(r, core=True, causal="timelike", forward=True)[0]
        return gen.vec(r, d, core=True)[0]

    for hi in range(NHIST[tier]):
        mom = hi % 2 == 0
        while True:
            try:
                v, l0 = mkvec(genv(dim, system0), system0, mom)
                break
            except R.NotRepresentable:
                continue
        ident, cls0 = id(v), type(v)
        cur = list(system0)
        hist = [f"start {R.sysname(system0)} {'mom' if mom else 'gen'} {[E.f(c) for c in B.obj_stored(v)[1]]}"]
        for step in range(r.randint(3, LEN[tier])):
            kind = r.choices(["assign", "inplace", "fail"], [5, 3, 2])[0]
            sys_before = tuple(cur)
            slots_before = _slots(v)
            stored_before = B.obj_stored(v)[1]
            res.evaluations += 1
            if kind == "assign":
                g = r.choice([c for c, gi in GROUP.items() if gi < dim - 1])
                name = r.choice(SPELL[g] if mom else SPELL[g][:1])
                gi = GROUP[g]
                # a value that keeps the vector in the representable domain
                if g in ("rho",):
                    val = num(gen.dyadic(r, 0.3, 6))
                elif g == "phi":
                    val = num(gen.dyadic(r, -3, 3))
                elif g == "theta":
                    val = num(gen.dyadic(r, 0.3, 2.8))
                elif g == "eta":
                    val = num(gen.dyadic(r, -2, 2))
                elif g == "t":
                    val = num(gen.dyadic(r, 20, 40))
                elif g == "tau":
                    val = num(gen.dyadic(r, 0.5, 5))
                else:
                    val = num(r.choice([1, -1]) * gen.dyadic(r, 0.3, 6))
                if r.random() < 0.2:
                    # assigning the value the coordinate currently has (computed, if it is not the stored one) is an
                    # assignment like any other: the coordinate becomes the stored one and reads back exactly
                    try:
                        cur_val = getattr(v, name)
                        if cur_val == cur_val and (mp_mode or abs(float(cur_val)) < 1e300):
                            val = cur_val
                    except Exception:
                        pass
                partner_before = getattr(v, PARTNER[g]) if g in PARTNER else None
                hist.append(f"{name} = {E.f(val)}")
                try:
                    setattr(v, name, val)
                except Exception as e:
                    V(f"assignment-raises coordinate={name}", hist, exc=f"{type(e).__name__}: {e}"[:200])
                    break
                cur[gi] = AZTYPE[g] if gi == 0 else g
                sys_after, stored = B.obj_stored(v)
                if sys_after != tuple(cur):
                    V(f"wrong-stored-system-after-assignment coordinate={name}", hist, got=R.sysname(sys_after), expected=R.sysname(tuple(cur)))
                    break
                names_now = R.field_names(sys_after)
                idx = names_now.index(g)
                if not _same(stored[idx], val):
                    V(f"assigned-coordinate-does-not-read-back coordinate={name}", hist, stored=repr(stored[idx]), assigned=repr(val))
                    break
                if not _same(getattr(v, name), val):
                    V(f"assigned-coordinate-accessor-differs coordinate={name}", hist, got=repr(getattr(v, name)))
                    break
                if g in PARTNER:
                    pidx = names_now.index(PARTNER[g])
                    if not _same(stored[pidx], partner_before):
                        V(f"partner-coordinate-changed coordinate={name}", hist, partner=PARTNER[g], before=repr(partner_before), after=repr(stored[pidx]))
                        break
                slots_after = _slots(v)
                for k, (a, b) in enumerate(zip(slots_before, slots_after)):
                    if k != gi and a is not b:
                        V(f"other-group-touched-by-assignment coordinate={name}", hist, group=k)
                        break
                if id(v) != ident or type(v) is not cls0:
                    V("identity-or-class-changed-by-assignment", hist)
                    break
                res.cell("assign", name, R.sysname(sys_before), bk)
            elif kind == "inplace":
                opn = r.choice(["+=", "-=", "*=", "/="])
                tau_stored = dim == 4 and cur[2] == "tau"
                if opn in ("+=", "-="):
                    if opn == "-=" and tau_stored:
                        opn = "+="
                    osys = R.SYSTEMS[dim][r.randrange(len(R.SYSTEMS[dim]))]
                    try:
                        w, wl = mkvec(genv(dim, osys), osys, r.random() < 0.5)
                    except R.NotRepresentable:
                        continue
                    cancels = False
                    if not mp_mode and not tau_stored and cur[0] == "rhophi" and (dim == 2 or cur[1] == "z") and r.random() < 0.25:
                        # an operand whose transverse part cancels v's exactly (x = -v.x, y = -v.y as floats): the result has
                        # rho == 0, and whatever the in-place path stores as phi then is what the functional path stores
                        sign = 1.0 if opn == "-=" else -1.0
                        comps = [sign * float(v.x), sign * float(v.y)] + ([float(gen.dyadic(r, 0.3, 3))] if dim >= 3 else []) + \
                            ([float(gen.dyadic(r, 20, 40))] if dim == 4 else [])
                        w = B.mk_obj(R.SYSTEMS[dim][0], comps, r.random() < 0.5)
                        cancels = True
                    snapshot = copy.copy(v)
                    functional = (snapshot + w) if opn == "+=" else (snapshot - w)
                    hist.append(f"{opn} {type(w).__name__}{[E.f(c) for c in B.obj_stored(w)[1]]}" + (" [cancels the transverse part exactly]" if cancels else ""))
                    try:
                        v2 = v
                        if opn == "+=":
                            v2 += w
                        else:
                            v2 -= w
                    except Exception as e:
                        V(f"inplace-operator-raises operator={opn}", hist, exc=f"{type(e).__name__}: {e}"[:200])
                        break
                    ref = None
                    if mp_mode:
                        try:
                            cur_rv = B.to_rv(sys_before, stored_before)
                            ref = R.op_add(cur_rv, wl.rv) if opn == "+=" else R.op_subtract(cur_rv, wl.rv)
                        except R.NotRepresentable:
                            ref = None
                else:
                    k = gen.dyadic(r, 0.3, 3) * (1 if tau_stored else r.choice([1, -1]))
                    kk = num(k)
                    snapshot = copy.copy(v)
                    functional = (snapshot * kk) if opn == "*=" else (snapshot / kk)
                    hist.append(f"{opn} {E.f(k)}")
                    try:
                        v2 = v
                        if opn == "*=":
                            v2 *= kk
                        else:
                            v2 /= kk
                    except Exception as e:
                        V(f"inplace-operator-raises operator={opn}", hist, exc=f"{type(e).__name__}: {e}"[:200])
                        break
                    ref = None
                    if mp_mode:
                        try:
                            cur_rv = B.to_rv(sys_before, stored_before)
                            ref = R.op_scale(cur_rv, k if opn == "*=" else 1 / k)
                        except R.NotRepresentable:
                            ref = None
                if v2 is not v or id(v) != ident:
                    V(f"inplace-operator-does-not-keep-identity operator={opn}", hist)
                    break
                if type(v) is not cls0:
                    V(f"inplace-operator-changes-class operator={opn}", hist, got=type(v).__name__)
                    break
                sys_after, stored = B.obj_stored(v)
                if sys_after != sys_before:
                    V(f"inplace-operator-changes-coordinate-system operator={opn}", hist, got=R.sysname(sys_after), expected=R.sysname(sys_before))
                    break
                want = [getattr(functional, nm) for nm in R.field_names(sys_before)]
                if not all(_same(a, b) for a, b in zip(stored, want)):
                    V(f"inplace-result-differs-from-functional-result operator={opn}", hist,
                      stored=[repr(x) for x in stored], functional=[repr(x) for x in want])
                    break
                if ref is not None and R.representable(ref, sys_before, mpf(10) ** -20):
                    try:
                        got = B.to_rv(sys_after, stored)
                        unit = max(abs(c) for c in ref.comps()) or mpf(1)
                        err = max(abs(a - b) for a, b in zip(got.comps(), ref.comps())) / max(unit, mpf(1))
                        res.err("mp:inplace-vs-reference", err)
                        if err > mpf(10) ** -20:
                            V(f"inplace-result-differs-from-reference-model operator={opn}", hist, rel_error=mpmath.nstr(err, 5))
                            break
                    except R.NotRepresentable:
                        pass
                res.cell("inplace", opn, R.sysname(sys_before), bk)
            else:
                odim = r.choice([d for d in (2, 3, 4) if d != dim])
                other = mkvec(genv(odim, R.SYSTEMS[odim][0]), R.SYSTEMS[odim][0], False)[0]
                same_dim = mkvec(genv(dim, R.SYSTEMS[dim][0]), R.SYSTEMS[dim][0], False)[0]
                import operator as _op

                # the operator *statements* (v op= w), not the dunder methods: a dunder returning NotImplemented makes
                # Python fall back to v = v op w, which rebinds the name instead of updating the object
                fails = {
                    "+= other dimension": lambda x: _op.iadd(x, other),
                    "-= other dimension": lambda x: _op.isub(x, other),
                    "+= number": lambda x: _op.iadd(x, num(3)),
                    "-= string": lambda x: _op.isub(x, "a"),
                    "*= vector": lambda x: _op.imul(x, same_dim),
                    "/= vector": lambda x: _op.itruediv(x, same_dim),
                    "/= 0": lambda x: _op.itruediv(x, 0),
                    "*= string": lambda x: _op.imul(x, "a"),
                    "*= None": lambda x: _op.imul(x, None),
                    "+= None": lambda x: _op.iadd(x, None),
                }
                if not mp_mode:
                    # a result that is not a single vector cannot be assigned: TypeError, object untouched
                    arr = B.mk_numpy_cls(R.SYSTEMS[dim][0], [B.obj_stored(same_dim)[1]] * 2, False)
                    fails["+= numpy vector array"] = lambda x: _op.iadd(x, arr)
                    fails["-= numpy vector array"] = lambda x: _op.isub(x, arr)
                    akarr = B.mk_awk(R.SYSTEMS[dim][0], [B.obj_stored(same_dim)[1]] * 2, False)
                    fails["+= awkward vector array"] = lambda x: _op.iadd(x, akarr)
                    fails["-= awkward vector array"] = lambda x: _op.isub(x, akarr)
                    fails["+= awkward vector record"] = lambda x: _op.iadd(x, akarr[0])

                fname = r.choice(list(fails))
                hist.append(f"FAIL {fname}")
                raised = None
                try:
                    out = fails[fname](v)
                    if out is not v:
                        # the statement completed and would bind the name to another object
                        V(f"inplace-operator-statement-rebinds-the-name step={fname}", hist, result_type=type(out).__name__)
                        break
                except Exception as e:
                    raised = type(e).__name__
                sys_after, stored = B.obj_stored(v)
                slots_after = _slots(v)
                unchanged = sys_after == sys_before and all(a is b for a, b in zip(slots_before, slots_after))
                if raised is None:
                    if fname in ("/= 0",) and not mp_mode:
                        # numpy scalars would give inf; python numbers raise: either way the object must be consistent
                        pass
                    res.count("failing_step_did_not_raise:" + fname)
                    if not unchanged:
                        # it did something without raising: resynchronise the model and go on
                        cur = list(sys_after)
                elif not unchanged:
                    V(f"object-changed-by-a-step-that-raised step={fname}", hist, raised=raised,
                      before=[repr(x) for x in stored_before], after=[repr(x) for x in stored])
                    break
                res.cell("fail", fname, R.sysname(sys_before), bk)
        if hi == 0:
            res.sample({"history": hist[:14], "backend": bk})
    return res


def finalize(total, tier, seed):
    kinds = {c.split("|")[0] for c in total.cells}
    for k in ("assign", "inplace", "fail", "sympy-assign"):
        if k not in kinds:
            total.inconc(f"step kind {k} never executed")
    coords = {c.split("|")[1] for c in total.cells if c.startswith("assign|")}
    need = {s for g in SPELL.values() for s in g}
    if need - coords:
        total.inconc(f"coordinates never assigned: {sorted(need - coords)}")
    return {"assigned_spellings": sorted(coords), "counters_failing_steps": {k: v for k, v in total.counters.items() if k.startswith("failing_step")}}
