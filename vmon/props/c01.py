"""C01 — results do not depend on the coordinate system operands are stored in.

Metamorphic monitor on 60-digit object vectors: the same geometric operands are
re-expressed in every coordinate system; each public call's canonicalised
result must agree with the all-Cartesian signature.  A tap on `_from_signature`
counts the dispatch variants actually reached (DESIGN §3 C01).
"""
from __future__ import annotations

import mpmath
from mpmath import mpf

from .. import catalog as C
from .. import engine as E
from .. import gen
from .. import knownmech
from .. import refmodel as R
from .. import tap
from .. import workload as W
from ..mplib import Q
from ..verdict import Result

LEVEL = "exploration"
RULE = ("every catalogued public operation x every coordinate-system signature of its operands "
        "(x12 Euler orders) on 60-digit object vectors; operands drawn from sign/quadrant/hemisphere/"
        "near-axis/near-light-cone/magnitude strata; a cell is (operation, dim, signature, stratum label) "
        "and counts as non-trivial when operands and the exact result are representable in the systems "
        "involved and the canonicalised result was compared with the all-Cartesian signature")
ASSUMPTIONS = [
    "mpmath arithmetic at 60 digits is correct; MpLib mirrors NumPy semantics only at singular points, which are not judged here",
    "the all-Cartesian signature is the baseline of the metamorphic comparison (a defect shared by every signature is C02's to find)",
    "finite samples of the reals: strata are enumerated, values inside a stratum are sampled",
]
ACCEPT = mpf(10) ** -35
VIOLATE = mpf(10) ** -20
MARGIN = mpf(10) ** -25
DRAWS = {"quick": 40, "thorough": 2500}
NSHARDS = {"quick": 32, "thorough": 64}
SHARD_TIMEOUT = {"quick": 900, "thorough": 5400}

CART = {2: ("xy",), 3: ("xy", "z"), 4: ("xy", "z", "t")}


def plan(tier, seed):
    items = W.cost_table()
    bins = W.pack(items, NSHARDS[tier])
    return [{"i": i, "items": b} for i, b in enumerate(bins)]


def _partial_check(op, self_l, got, res, cellkey):
    """documented exception: stored higher coordinates of the result are the operand's, bit for bit"""
    k = op.partial
    stored_in = self_l.exact_coords()
    if got.dim != self_l.rv.dim:
        res.violation(f"C01/partial-dimension-changed op={op.name}", {"cell": cellkey})
        return False
    if got.system[k - 1:] != self_l.system[k - 1:]:
        res.violation(f"C01/partial-higher-system-changed op={op.name}",
                      {"cell": cellkey, "operand": R.sysname(self_l.system), "result": R.sysname(got.system)})
        return False
    for i in range(k, len(stored_in)):
        a, b = got.stored[i], stored_in[i]
        a = a.v if type(a) is Q else mpf(a)
        if a != b:
            res.violation(f"C01/partial-higher-coordinate-touched op={op.name}",
                          {"cell": cellkey, "index": i, "got": mpmath.nstr(a, 30), "operand": mpmath.nstr(b, 30)})
            return False
    return True


def run_shard(spec, tier, seed):
    tap.install()
    res = Result()
    ndraw = DRAWS[tier]
    for opname, dim in spec["items"]:
        op = C.OPS[opname]
        r = gen.rng(seed, "C01", opname, dim)
        odims = op.other_dims(dim) if op.other_dims else (None,)
        for di in range(ndraw):
            draw = W.make_draw(op, dim, r, core=False, mp=True, odim=odims[di % len(odims)], unit_quat=True)
            base = None
            base_key = None
            outcomes = []
            for s_self, s_other, order in W.systems_for(draw):
                try:
                    self_l, args = W.instantiate(draw, s_self, s_other, order,
                                                 flip_momentum=(di % 3 == 1), upper=(di % 4 == 3))
                except R.NotRepresentable:
                    res.count("skip_operand_not_representable")
                    continue
                res.evaluations += 1
                sig = (R.sysname(s_self), R.sysname(s_other) if s_other else "-", order or "-")
                try:
                    got = E.eval_mp(op, self_l, args)
                except R.NotRepresentable:
                    # the monitor's own readout: the result (e.g. the zero vector in theta storage) has no canonical form
                    res.count("skip_result_not_representable")
                    continue
                except Exception as e:  # an exception on in-domain operands is itself an observation
                    outcomes.append((sig, self_l, args, ("exc", type(e).__name__, str(e)[:200])))
                    continue
                outcomes.append((sig, self_l, args, ("ok", got)))
            if not outcomes:
                continue
            # baseline: the all-Cartesian signature (per Euler order)
            bases = {}
            for sig, self_l, args, out in outcomes:
                cart_other = True
                for a in args:
                    if isinstance(a, E.LVec) and a.system != CART[a.rv.dim]:
                        cart_other = False
                if self_l.system == CART[dim] and cart_other:
                    bases[sig[2]] = (sig, out)
            for sig, self_l, args, out in outcomes:
                cellkey = f"{op.name}|{dim}|{'|'.join(sig)}"
                b = bases.get(sig[2])
                if b is None:
                    res.count("skip_no_cartesian_baseline")
                    continue
                bsig, bout = b
                if bout[0] == "exc" or out[0] == "exc":
                    if bout[0] != out[0]:
                        res.violation(f"C01/exception-for-one-signature op={op.name} dim={dim}",
                                      {"cell": cellkey, "this": str(out[1:])[:300], "cartesian": str(bout[1:])[:300],
                                       "self": self_l.describe(), "args": [E.describe_arg(a) for a in args]})
                    else:
                        res.count("both_raise:" + out[1])
                    continue
                got, exp = out[1], bout[1]
                if not E.is_finite_result(exp):
                    res.count("skip_singular_baseline")
                    continue
                unit = E.unit_scale(self_l, args)
                gain = E.arg_gain(op, args)
                if op.result == "bool":
                    # judged only off the decision boundary
                    if op.predicate_margin is not None:
                        try:
                            m = op.predicate_margin(draw.self_rv, *[E.ref_arg(a) for a in args])
                        except R.Undefined:
                            res.count("skip_predicate_undefined")
                            continue
                        if m < MARGIN:
                            res.count("skip_predicate_on_boundary")
                            continue
                    if bool(got) != bool(exp):
                        res.violation(f"C01/bool-differs op={op.name} dim={dim}",
                                      {"cell": cellkey, "got": got, "cartesian": exp, "label": draw.label,
                                       "self": self_l.describe(), "args": [E.describe_arg(a) for a in args]})
                    res.cell(cellkey, draw.label.split("/")[0])
                    continue
                if op.result == "vec":
                    if got.dim != exp.dim or got.momentum != exp.momentum or got.cls != exp.cls:
                        res.violation(f"C01/result-class-differs op={op.name} dim={dim}",
                                      {"cell": cellkey, "got": got.cls, "cartesian": exp.cls})
                        continue
                    if op.partial and op.partial < dim:
                        if not _partial_check(op, self_l, got, res, cellkey):
                            continue
                        gp, ep = R.project(got.rv, op.partial), R.project(exp.rv, op.partial)
                        err = E.rel_error(op, gp, ep, unit, gain)
                        res.count("partial_contract_checked")
                    else:
                        if not R.representable(exp.rv, got.system, MARGIN * unit):
                            res.count("skip_result_not_representable")
                            continue
                        err = E.rel_error(op, got, exp.rv, unit, gain)
                else:
                    err = E.rel_error(op, got, exp, unit, gain) / E.cond_gain(op, self_l, args, ACCEPT)
                if err > VIOLATE:
                    km = knownmech.classify(op, self_l, args, got_scalar_is_zero=(op.result != "vec" and got == 0))
                    if km:
                        res.violation("C01/" + km, {"cell": cellkey, "self": self_l.describe(),
                                                    "got": _show(got), "cartesian": _show(exp)})
                        continue
                res.err(op.group, err)
                if err > VIOLATE:
                    res.violation(f"C01/value-differs op={op.name} dim={dim}",
                                  {"cell": cellkey, "rel_error": mpmath.nstr(err, 5), "label": draw.label,
                                   "self": self_l.describe(), "args": [E.describe_arg(a) for a in args],
                                   "got": _show(got), "cartesian": _show(exp)})
                elif err > ACCEPT:
                    res.inconc(f"grey-band discrepancy {mpmath.nstr(err, 5)} at {cellkey}")
                res.cell(cellkey, draw.label.split("/")[0])
                if di == 0 and s_index(sig) == 0:
                    pass
            if di == 0:
                sig, self_l, args, out = outcomes[-1]
                res.sample({"op": op.name, "dim": dim, "signature": sig, "label": draw.label,
                            "self": self_l.describe(), "args": [E.describe_arg(a) for a in args],
                            "result": _show(out[1]) if out[0] == "ok" else out[1:]})
        _float64_layer(op, dim, odims, tier, seed, res)
    for v in tap.SEEN:
        res.add_to("variants_seen", f"{v[0]}:{','.join(v[1])}")
    return res


F_TOL = mpf(10) ** -9
DRAWS_F = {"quick": 10, "thorough": 400}


def _float64_layer(op, dim, odims, tier, seed, res):
    """the same metamorphic comparison in float64 ("the same up to floating-point rounding"): well-conditioned
    operands (incl. the collinear and exact-zero strata) re-expressed in every signature as float64 object vectors; each
    result against the all-Cartesian one at 1e-9 of the scale (x the conditioning of the definition).  What 60 digits
    cannot show -- a clamp that is missing where rounding pushes a cosine past 1, cancellation in one variant --
    shows here."""
    from .c02 import _f64_ok

    r = gen.rng(seed, "C01f64", op.name, dim)
    done = 0
    guard = 0
    while done < DRAWS_F[tier] and guard < 20 * DRAWS_F[tier]:
        guard += 1
        draw = W.make_draw(op, dim, r, core=True, mp=False, odim=odims[done % len(odims)], unit_quat=True)
        if not _f64_ok(op, draw):
            continue
        done += 1
        outs = []
        for s_self, s_other, order in W.systems_for(draw):
            try:
                self_l, args = W.instantiate(draw, s_self, s_other, order, flip_momentum=(done % 3 == 1), upper=(done % 4 == 3))
                for x in (self_l, *args):
                    if isinstance(x, E.LVec):
                        x.f64()
            except R.NotRepresentable:
                continue
            sig = (R.sysname(s_self), R.sysname(s_other) if s_other else "-", order or "-")
            res.evaluations += 1
            try:
                outs.append((sig, self_l, args, ("ok", E.eval_obj(op, self_l, args))))
            except R.NotRepresentable:
                continue
            except Exception as e:
                outs.append((sig, self_l, args, ("exc", type(e).__name__, str(e)[:200])))
        bases = {}
        for sig, self_l, args, out in outs:
            if self_l.system == CART[dim] and all(a.system == CART[a.rv.dim] for a in args if isinstance(a, E.LVec)):
                bases[sig[2]] = out
        for sig, self_l, args, out in outs:
            cellkey = f"{op.name}|{dim}|{'|'.join(sig)}"
            bout = bases.get(sig[2])
            if bout is None or bout[0] == "exc" or out[0] == "exc":
                if bout is not None and bout[0] != out[0]:
                    res.count("float64:exception_for_one_signature_only(" + (out[1] if out[0] == "exc" else bout[1]) + ")")
                continue
            got, exp = out[1], bout[1]
            if not E.is_finite_result(exp):
                continue
            unit = E.unit_scale(self_l, args, True)
            gain = E.arg_gain(op, args)
            if op.result == "bool":
                if op.predicate_margin is not None:
                    try:
                        m = op.predicate_margin(E.ref_arg(self_l, True), *[E.ref_arg(a, True) for a in args])
                    except R.Undefined:
                        continue
                    if m < mpf(10) ** -6:
                        continue
                if bool(got) != bool(exp):
                    res.violation(f"C01/bool-differs op={op.name} dim={dim} float64",
                                  {"cell": cellkey, "got": got, "cartesian": exp, "self": self_l.describe(),
                                   "args": [E.describe_arg(a) for a in args]})
                res.cell("f64", cellkey)
                continue
            if op.result == "vec":
                if got.dim != exp.dim:
                    continue  # the 60-digit layer reports class/dimension differences
                if op.partial and op.partial < dim:
                    err = E.rel_error(op, R.project(got.rv, op.partial), R.project(exp.rv, op.partial), unit, gain)
                else:
                    e_ = exp.rv
                    if not R.representable(e_, got.system, mpf(10) ** -6 * unit):
                        continue
                    if got.system[-1] == "tau" and abs(e_.tau2) < mpf("0.02") * max(e_.t2, mpf(10) ** -300):
                        continue
                    if len(got.system) >= 2 and got.system[1] in ("theta", "eta") and e_.rho < mpf("0.01") * e_.mag:
                        continue
                    err = E.rel_error(op, got, e_, unit, gain)
            else:
                err = E.rel_error(op, got, exp, unit, gain) / E.cond_gain(op, self_l, args, F_TOL, True)
            res.err("f64:" + op.group, err)
            if err > F_TOL:
                km = knownmech.classify(op, self_l, args, got_scalar_is_zero=(op.result != "vec" and got == 0))
                res.violation("C01/" + km if km else f"C01/value-differs op={op.name} dim={dim} float64",
                              {"cell": cellkey, "rel_error": mpmath.nstr(err, 5), "label": draw.label, "self": self_l.describe(),
                               "args": [E.describe_arg(a) for a in args], "got": _show(got), "cartesian": _show(exp)})
            res.cell("f64", cellkey)


def s_index(sig):
    return 0


def _show(x):
    if isinstance(x, E.VecResult):
        return {"class": x.cls, "system": R.sysname(x.system), "stored": [mpmath.nstr(c.v if type(c) is Q else c, 25) for c in x.stored]}
    if isinstance(x, bool):
        return x
    return mpmath.nstr(x, 30)


def finalize(total, tier, seed):
    from .. import bind
    bind.bind()
    allv = {f"{v[0]}:{','.join(v[1])}" for v in tap.all_variants()}
    seen = total.sets.get("variants_seen", set())
    missing = sorted(allv - seen)
    if missing:
        total.inconc(f"{len(missing)} of {len(allv)} dispatch variants never reached, e.g. {missing[:5]}")
    problems = C.completeness_guard()
    if problems:
        total.inconc("catalogue incomplete: " + "; ".join(problems[:5]))
    # every (operation, dim, signature) cell needs at least one in-domain comparison
    return {"dispatch_variants_total": len(allv), "dispatch_variants_observed": len(allv & seen),
            "operations": len(C.OPS), "tolerance": {"accept": "1e-35", "violate": "1e-20"}}
