"""C05 — result backend, flavor, dimension and coordinate system follow the stated rules.

Type-level monitor over the finite lattice: method x coordinate signature x
{generic, momentum} per operand x backend pairing (object, NumPy array, Awkward
array, Awkward record) x operand order x dimension pairing.  A rule model
predicts the result class / record name / coordinate system or the exception
type; the observation is compared with it (DESIGN §3 C05).
"""
from __future__ import annotations

import itertools

import numpy

from .. import awk
from .. import backends as B
from .. import catalog as C
from .. import engine as E
from .. import gen
from .. import refmodel as R
from .. import workload as W
from ..engine import LVec
from ..verdict import Result

LEVEL = "exploration"
AWKWARD_REGISTRATION_MIX = True
RULE = ("finite lattice: (a) every operation x every coordinate signature x 4 flavor pairs on the object backend (exhaustive, "
        "two unrelated value sets each -> result system is a function of the signature); (b) every operation x backend pairing "
        "(object/NumPy/Awkward array/Awkward record, both orders) x flavor pairs x sampled (quick) or all (thorough) signatures; "
        "(c) every dimension pairing 2/3/4 x backend pairing for the operations that must reject it, and acceptance after like(); "
        "(d) operators vs methods on every backend. A cell is (operation, signature, flavor pair, backend pairing, rule)")
ASSUMPTIONS = [
    "the axis of rotate_axis is a secondary argument (does not count for backend or flavor); boosters count",
    "values are not judged here (C02/C03); only classes, record names, stored coordinate types and exception types",
]
NSHARDS = {"quick": 32, "thorough": 64}
SHARD_TIMEOUT = {"quick": 1200, "thorough": 10800}
KINDS = ("object", "numpy", "awkward", "record")
PRIO = {"object": 0, "numpy": 1, "awkward": 3, "record": 3}
SAME_DIM_OPS = ("add", "subtract", "dot", "equal", "not_equal", "isclose", "is_parallel", "is_antiparallel", "is_perpendicular")
N = 3
UNARY_SCALAR = ("abs", "**2", "numpy.absolute", "numpy.square")
SCALAR_OPERATORS = ("abs", "**2", "==", "!=", "numpy.absolute", "numpy.square", "numpy.equal", "numpy.not_equal")


def plan(tier, seed):
    items = [(n, d, 1) for n, d, _ in W.cost_table()]
    specs = [{"part": "lattice", "i": i, "items": b} for i, b in enumerate(W.pack(items, NSHARDS[tier]))]
    specs += [{"part": "dims", "kinds": [a, b]} for a in KINDS for b in KINDS]
    specs += [{"part": "operators", "dim": d} for d in (2, 3, 4)]
    return specs


_ROUTES = ("zip", "with_name", "Array")
_route_counter = [0]


def mk(kind, ls):
    """ls: list of N LVec with the same system/flavor; Awkward operands rotate through the three construction
    routes (vector.zip, hand-named ak.zip(with_name=) keeping momentum field names, vector.Array)"""
    s0 = ls[0]
    rows = [l.f64()[0] for l in ls]
    if kind == "object":
        return B.mk_obj(s0.system, rows[0], s0.momentum)
    if kind == "numpy":
        return B.mk_numpy_cls(s0.system, rows, s0.momentum)
    mom = s0.momentum and any(B.MOM_SPELL[x] for x in R.field_names(s0.system))
    _route_counter[0] += 1
    arr = awk.build(s0.system, rows, mom, list(range(len(rows))), route=_ROUTES[_route_counter[0] % 3])
    if kind == "awkward":
        return arr
    return arr[0]


def effective_momentum(kind, l):
    """awkward vectors of a system without any momentum-spellable coordinate cannot be momentum by name"""
    if kind in ("awkward", "record") and l.momentum:
        return any(B.MOM_SPELL[x] for x in R.field_names(l.system))
    return l.momentum


def observe(x):
    """type-level observation of a result"""
    import awkward as ak
    from vector._methods import Momentum, Vector
    from vector.backends.numpy import VectorNumpy
    from vector.backends.object import VectorObject

    if isinstance(x, Vector):
        backend, system, _, mom, _ = B.stored_columns(x)
        if backend == "awkward":
            backend = "record" if isinstance(x, ak.Record) else "awkward"
            name = awk.recname(x)
        else:
            name = type(x).__name__
        return {"vector": True, "backend": backend, "momentum": mom, "dim": len(system) + 1, "system": system, "name": name}
    if isinstance(x, ak.Array):
        return {"vector": False, "backend": "awkward", "fields": ak.fields(x)}
    if isinstance(x, ak.Record):
        return {"vector": False, "backend": "record", "fields": ak.fields(x)}
    if isinstance(x, numpy.ndarray) and x.ndim > 0:
        return {"vector": False, "backend": "numpy"}
    return {"vector": False, "backend": "object"}


def expected_backend(kinds):
    """kinds: kinds of the *counted* vector operands"""
    top = max(kinds, key=lambda k: PRIO[k])
    if PRIO[top] == 3:
        # awkward: an array result as soon as any counted operand is an array (awkward or numpy)
        return "awkward" if any(k in ("awkward", "numpy") for k in kinds) else "record"
    return top


def class_name(backend, mom, dim):
    if backend == "object":
        return ("MomentumObject" if mom else "VectorObject") + f"{dim}D"
    if backend == "numpy":
        return ("MomentumNumpy" if mom else "VectorNumpy") + f"{dim}D"
    return ("Momentum" if mom else "Vector") + f"{dim}D"


def run_lattice(spec, tier, seed, res):
    for opname, dim in spec["items"]:
        op = C.OPS[opname]
        r = gen.rng(seed, "C05", opname, dim)
        odims = op.other_dims(dim) if op.other_dims else (None,)
        has_vec = any(k in E.VEC_ARGS for k in op.args)
        secondary = op.name == "rotate_axis"
        for odim in odims:
            sigs = list(itertools.product(R.SYSTEMS[dim], R.SYSTEMS[odim] if odim else [None],
                                          (R.EULER_ORDERS[:3] if "order" in op.args else [None])))
            system_of_sig = {}
            # ---------------- (a) object backend: exhaustive signatures x flavor pairs, two value sets
            for (s_self, s_other, order) in sigs:
                for m1, m2 in ([(False, False), (False, True), (True, False), (True, True)] if has_vec else [(False, None), (True, None)]):
                    if op.momentum_only and not m1:
                        continue
                    seen_systems = set()
                    for rep in range(2):
                        d = W.make_draw(op, dim, r, core=True, mp=False, odim=odim, momentum=m1)
                        try:
                            self_l, args = W.instantiate(d, s_self, s_other, order)
                        except R.NotRepresentable:
                            continue
                        for a in args:
                            if isinstance(a, LVec):
                                a.momentum = bool(m2)
                        res.evaluations += 1
                        cell = f"{op.name}|{dim}|{R.sysname(s_self)}|{R.sysname(s_other) if s_other else '-'}|{int(m1)}{int(bool(m2))}"
                        try:
                            out = op.call(E.mat_obj(self_l), *[E.mat_obj(a) for a in args])
                        except Exception as e:
                            res.violation(f"C05/undefined-for-signature op={op.name}", {"cell": cell, "exc": f"{type(e).__name__}: {e}"[:300]})
                            continue
                        o = observe(out)
                        if op.result == "vec":
                            want_m = m1 or (bool(m2) and not secondary)
                            want_d = op.resdim(dim) if op.resdim else dim
                            if not o["vector"] or o["backend"] != "object" or o["momentum"] != want_m or o["dim"] != want_d:
                                res.violation(f"C05/object-result-type op={op.name}", {"cell": cell, "got": o, "expected": class_name("object", want_m, want_d)})
                            else:
                                seen_systems.add(o["system"])
                                system_of_sig[(s_self, s_other, order)] = o["system"]
                        elif o["vector"]:
                            res.violation(f"C05/scalar-operation-returns-vector op={op.name}", {"cell": cell, "got": o})
                        res.cell(cell, "object-lattice")
                    if len(seen_systems) > 1:
                        res.violation(f"C05/result-system-depends-on-values op={op.name}", {"cell": cell, "systems": sorted(map(R.sysname, seen_systems))})
            # ---------------- (b) backend pairings
            nsig = len(sigs) if tier == "thorough" else min(len(sigs), 3)
            for (s_self, s_other, order) in (sigs if tier == "thorough" else r.sample(sigs, nsig)):
                pairings = list(itertools.product(KINDS, KINDS)) if has_vec else [(k, None) for k in KINDS]
                for k1, k2 in pairings:
                    for m1, m2 in ([(False, True), (True, False)] + ([(True, True), (False, False)] if tier == "thorough" else [(r.random() < 0.5,) * 2])
                                   if has_vec else [(False, None), (True, None)]):
                        if op.momentum_only and not m1:
                            continue
                        draws = W.make_batch(op, dim, r, N, odim=odim, momentum=m1)
                        try:
                            cases = [W.instantiate(d, s_self, s_other, order) for d in draws]
                        except R.NotRepresentable:
                            continue
                        for c in cases:
                            for a in c[1]:
                                if isinstance(a, LVec):
                                    a.momentum = bool(m2)
                        selfs = [c[0] for c in cases]
                        try:
                            v = mk(k1, selfs)
                            args = []
                            other_eff_m = None
                            for j, a0 in enumerate(cases[0][1]):
                                if isinstance(a0, LVec):
                                    col = [c[1][j] for c in cases]
                                    args.append(mk(k2, col))
                                    other_eff_m = effective_momentum(k2, a0)
                                else:
                                    args.append(E._conv_scalar(a0, float))
                        except Exception as e:
                            res.inconc(f"cannot build operands {k1}/{k2}: {e!r}"[:200])
                            continue
                        self_eff_m = effective_momentum(k1, selfs[0])
                        cell = f"{op.name}|{dim}|{R.sysname(s_self)}|{R.sysname(s_other) if s_other else '-'}|{k1}x{k2}|{int(self_eff_m)}{int(bool(other_eff_m))}"
                        res.evaluations += 1
                        try:
                            out = op.call(v, *args)
                        except Exception as e:
                            if secondary and PRIO[k2] > PRIO[k1]:
                                res.count("skip_secondary_axis_of_higher_priority")
                                continue
                            res.violation(f"C05/raises-for-backend-pairing op={op.name} pairing={k1}x{k2}", {"cell": cell, "exc": f"{type(e).__name__}: {e}"[:300]})
                            continue
                        o = observe(out)
                        counted = [k1] + ([k2] if (k2 and not secondary) else [])
                        if secondary and k2 and (PRIO[k2] > PRIO[k1] or (k1 == "record" and k2 in ("awkward", "numpy"))):
                            # the axis does not count: the result keeps the class family, flavor and dimension of the
                            # rotated vector even when the axis comes from a higher-priority backend (the element-wise
                            # results then live inside that class; a record rotated about an array becomes an array)
                            res.count("secondary_axis_of_higher_priority_judged_on_type_only")
                            want_d = dim
                            ok_backend = o["vector"] and (o["backend"] == k1 or (k1 == "record" and o["backend"] == "awkward"))
                            if not ok_backend or o["momentum"] != self_eff_m or o["dim"] != want_d:
                                res.violation(f"C05/secondary-axis-decides-the-result-type op={op.name} pairing={k1}x{k2}",
                                              {"cell": cell, "got": o, "expected": f"{k1} family, momentum={self_eff_m}, {want_d}D"})
                            res.cell(cell, "pairing-secondary")
                            continue
                        want_b = expected_backend(counted)
                        if op.result == "vec":
                            want_m = self_eff_m or (bool(other_eff_m) and not secondary)
                            want_d = op.resdim(dim) if op.resdim else dim
                            problems = []
                            if not o["vector"]:
                                problems.append("not a vector")
                            else:
                                if o["backend"] != want_b:
                                    problems.append(f"backend {o['backend']} != {want_b}")
                                if o["momentum"] != want_m:
                                    problems.append(f"momentum {o['momentum']} != {want_m}")
                                if o["dim"] != want_d:
                                    problems.append(f"dim {o['dim']} != {want_d}")
                                if o["name"] != class_name(want_b, want_m, want_d):
                                    problems.append(f"name {o['name']} != {class_name(want_b, want_m, want_d)}")
                                ws = system_of_sig.get((s_self, s_other, order))
                                if ws is not None and o["system"] != ws:
                                    problems.append(f"system {R.sysname(o['system'])} != object backend's {R.sysname(ws)}")
                            if problems:
                                res.violation(f"C05/result-type-rule-broken op={op.name} pairing={k1}x{k2}", {"cell": cell, "problems": problems, "got": o})
                        else:
                            if o["vector"]:
                                res.violation(f"C05/scalar-operation-returns-vector op={op.name}", {"cell": cell, "got": o})
                            # the container of scalar results is not part of the stated rules: recorded, not judged
                            res.count(f"scalar_container:{k1}x{k2}->{o['backend']}")
                        res.cell(cell, "pairing")
        if len(res.samples) < 4:
            res.sample({"op": op.name, "dim": dim, "signatures": len(sigs), "pairings": len(KINDS) ** 2 if has_vec else len(KINDS)})


def _vec(kind, dim, r, mom=False, system=None):
    system = system or R.SYSTEMS[dim][r.randrange(len(R.SYSTEMS[dim]))]
    ls = []
    while len(ls) < N:
        rv, _ = gen.vec4(r, core=True, causal="timelike", forward=True) if dim == 4 else gen.vec(r, dim, core=True)
        try:
            l = LVec(rv, system, mom)
            l.exact_coords()
            ls.append(l)
        except R.NotRepresentable:
            pass
    return mk(kind, ls)


def run_dims(spec, tier, seed, res):
    """dimension pairings: rejection with TypeError, acceptance after like()"""
    k1, k2 = spec["kinds"]
    r = gen.rng(seed, "C05dims", k1, k2)
    reps = 2 if tier == "quick" else 8
    for d1, d2 in itertools.product((2, 3, 4), (2, 3, 4)):
        for rep in range(reps):
            a = _vec(k1, d1, r, rep % 2 == 0)
            b = _vec(k2, d2, r, rep % 3 == 0)
            cell = f"{d1}D{k1}|{d2}D{k2}"
            for name in SAME_DIM_OPS:
                extra = (1e-5,) if name.startswith("is_") else ()
                res.evaluations += 1
                try:
                    getattr(a, name)(b, *extra)
                    raised = None
                except TypeError:
                    raised = "TypeError"
                except Exception as e:
                    raised = f"{type(e).__name__}: {e}"[:200]
                if d1 != d2:
                    if raised != "TypeError":
                        res.violation(f"C05/unequal-dimensions-not-rejected op={name}", {"cell": cell, "raised": raised})
                    else:
                        # and it works after like()
                        for how, f in (("a.like(b).op(b)", lambda: getattr(a.like(b), name)(b, *extra)),
                                       ("a.op(b.like(a))", lambda: getattr(a, name)(b.like(a), *extra))):
                            res.evaluations += 1
                            try:
                                out = f()
                                o = observe(out)
                                if name in ("add", "subtract"):
                                    wd = d2 if how.startswith("a.like") else d1
                                    if not o["vector"] or o["dim"] != wd:
                                        res.violation(f"C05/like-result-dimension op={name}", {"cell": cell, "how": how, "got": o})
                            except Exception as e:
                                res.violation(f"C05/like-does-not-reconcile-dimensions op={name}", {"cell": cell, "how": how, "exc": f"{type(e).__name__}: {e}"[:200]})
                elif raised is not None:
                    res.violation(f"C05/equal-dimensions-rejected op={name}", {"cell": cell, "raised": raised})
                res.cell(cell, name)
            # operations with a fixed operand dimension
            fixed = [("cross", lambda: a.cross(b), d1 == 3 and d2 == 3, d1 >= 3),
                     ("rotate_axis", lambda: a.rotate_axis(b, 0.25), d1 >= 3 and d2 == 3, d1 >= 3),
                     ("boost_p4", lambda: a.boost_p4(b), d1 == 4 and d2 == 4, d1 == 4),
                     ("boost_beta3", lambda: a.boost_beta3(_small(b)), d1 == 4 and d2 == 3, d1 == 4),
                     ("boostCM_of_p4", lambda: a.boostCM_of_p4(b), d1 == 4 and d2 == 4, d1 == 4),
                     ("boostCM_of_beta3", lambda: a.boostCM_of_beta3(_small(b)), d1 == 4 and d2 == 3, d1 == 4),
                     ("boost", lambda: a.boost(_small(b) if d2 == 3 else b), d1 == 4 and d2 in (3, 4), d1 == 4),
                     ("boostCM_of", lambda: a.boostCM_of(_small(b) if d2 == 3 else b), d1 == 4 and d2 in (3, 4), d1 == 4),
                     ("deltaRapidityPhi", lambda: a.deltaRapidityPhi(b), d1 == 4 and d2 == 4, d1 == 4),
                     ("deltaangle", lambda: a.deltaangle(b), d1 >= 3 and d2 >= 3, d1 >= 3),
                     ("deltaR", lambda: a.deltaR(b), d1 >= 3 and d2 >= 3, d1 >= 3)]
            for name, f, ok_expected, has_method in fixed:
                if not has_method:
                    if hasattr(a, name):
                        res.violation(f"C05/method-exists-in-wrong-dimension op={name}", {"cell": cell})
                    continue
                if name == "rotate_axis" and PRIO[k2] > PRIO[k1]:
                    continue
                res.evaluations += 1
                try:
                    f()
                    raised = None
                except TypeError:
                    raised = "TypeError"
                except Exception as e:
                    raised = f"{type(e).__name__}: {e}"[:200]
                if ok_expected and raised is not None:
                    res.violation(f"C05/right-dimension-rejected op={name}", {"cell": cell, "raised": raised})
                if not ok_expected and raised != "TypeError":
                    res.violation(f"C05/wrong-dimension-not-rejected op={name}", {"cell": cell, "raised": raised})
                res.cell(cell, name)
    res.sample({"part": "dims", "kinds": [k1, k2]})


def _small(b):
    """a beta3-like 3-D vector with |beta| < 1 made from b (any backend)"""
    return b.scale(1e-3)


def run_operators(spec, tier, seed, res):
    """an operator gives the same value and type as the method it stands for, on every backend"""
    import awkward as ak

    dim = spec["dim"]
    r = gen.rng(seed, "C05ops", dim)

    def same(x, y):
        ox, oy = observe(x), observe(y)
        if ox.get("vector") != oy.get("vector"):
            return False, (ox, oy)
        if ox["vector"]:
            if (ox["backend"], ox["momentum"], ox["dim"], ox["system"], ox["name"]) != (oy["backend"], oy["momentum"], oy["dim"], oy["system"], oy["name"]):
                return False, (ox, oy)
            _, _, cx, _, _ = B.stored_columns(x)
            _, _, cy, _, _ = B.stored_columns(y)
            eq = all(B.same_bits(p, q) or (p != p and q != q) for a, b in zip(cx, cy) for p, q in zip(a, b)) and [len(a) for a in cx] == [len(b) for b in cy]
            return eq, "values differ bitwise"
        fx = ak.to_list(x) if isinstance(x, (ak.Array,)) else (numpy.asarray(x).tolist())
        fy = ak.to_list(y) if isinstance(y, (ak.Array,)) else (numpy.asarray(y).tolist())
        return (fx == fy or repr(fx) == repr(fy)), (repr(fx)[:80], repr(fy)[:80])

    for system in R.SYSTEMS[dim]:
        for k1, k2 in itertools.product(KINDS, KINDS):
            for m1, m2 in ((False, True), (True, False)):
                a = _vec(k1, dim, r, m1, system)
                b = _vec(k2, dim, r, m2, R.SYSTEMS[dim][r.randrange(len(R.SYSTEMS[dim]))])
                cell = f"{R.sysname(system)}|{k1}x{k2}"
                pairs = [("+", lambda: a + b, lambda: a.add(b)), ("-", lambda: a - b, lambda: a.subtract(b)),
                         ("@", lambda: a @ b, lambda: a.dot(b)), ("==", lambda: a == b, lambda: a.equal(b)),
                         ("!=", lambda: a != b, lambda: a.not_equal(b)),
                         ("*", lambda: a * 2.5, lambda: a.scale(2.5)), ("r*", lambda: 2.5 * a, lambda: a.scale(2.5)),
                         ("/", lambda: a / 4.0, lambda: a.scale(1 / 4.0)), ("neg", lambda: -a, lambda: a.scale(-1)),
                         ("pos", lambda: +a, lambda: a), ("abs", lambda: abs(a), lambda: {2: lambda: a.rho, 3: lambda: a.mag, 4: lambda: a.tau}[dim]()),
                         ("**2", lambda: a**2, lambda: {2: lambda: a.rho2, 3: lambda: a.mag2, 4: lambda: a.tau2}[dim]()),
                         ("numpy.add", lambda: numpy.add(a, b), lambda: a.add(b)), ("numpy.subtract", lambda: numpy.subtract(a, b), lambda: a.subtract(b)),
                         ("numpy.matmul", lambda: numpy.matmul(a, b), lambda: a.dot(b)), ("numpy.equal", lambda: numpy.equal(a, b), lambda: a.equal(b)),
                         ("numpy.not_equal", lambda: numpy.not_equal(a, b), lambda: a.not_equal(b)),
                         ("numpy.multiply", lambda: numpy.multiply(a, 2.5), lambda: a.scale(2.5)),
                         ("numpy.negative", lambda: numpy.negative(a), lambda: a.scale(-1)),
                         ("numpy.true_divide", lambda: numpy.true_divide(a, 4.0), lambda: a.scale(1 / 4.0)),
                         ("numpy.absolute", lambda: numpy.absolute(a), lambda: {2: lambda: a.rho, 3: lambda: a.mag, 4: lambda: a.tau}[dim]()),
                         ("numpy.square", lambda: numpy.square(a), lambda: {2: lambda: a.rho2, 3: lambda: a.mag2, 4: lambda: a.tau2}[dim]())]
                for name, fop, fmeth in pairs:
                    res.evaluations += 1
                    try:
                        y = fmeth()
                    except Exception as e:
                        res.count("method_raised")
                        continue
                    try:
                        x = fop()
                    except Exception as e:
                        awk_involved = "awkward" in (k1, k2) or "record" in (k1, k2)
                        if name in ("@", "numpy.matmul") and awk_involved and isinstance(e, NotImplementedError):
                            res.violation("C05/matmul-operator-unavailable-with-awkward-operands", {"cell": cell, "operator": name, "exc": str(e)[:120]})
                        elif name in SCALAR_OPERATORS and isinstance(e, AssertionError) and (
                                (name in UNARY_SCALAR and k1 == "record")
                                or (name not in UNARY_SCALAR and "record" in (k1, k2) and {k1, k2} <= {"record", "object"})):
                            res.violation("C05/scalar-valued-operators-unavailable-on-awkward-records", {"cell": cell, "operator": name})
                        else:
                            res.violation(f"C05/operator-raises-where-method-returns operator={name} pairing={k1}x{k2}",
                                          {"cell": cell, "exc": f"{type(e).__name__}: {e}"[:300]})
                        continue
                    ok, why = same(x, y)
                    if not ok:
                        res.violation(f"C05/operator-differs-from-method operator={name} pairing={k1}x{k2}", {"cell": cell, "why": why})
                    res.cell(cell, name)
    # ---- the documented `out=` form of the ufunc spellings (object and NumPy backends)
    import copy as _copy

    for system in R.SYSTEMS[dim]:
        for kind in ("object", "numpy"):
            a = _vec(kind, dim, r, True, system)
            b = _vec(kind, dim, r, False, R.SYSTEMS[dim][r.randrange(len(R.SYSTEMS[dim]))])
            for name, call, meth in (("numpy.add(out=)", lambda o: numpy.add(a, b, out=(o,)), lambda: a.add(b)),
                                     ("numpy.subtract(out=)", lambda o: numpy.subtract(a, b, out=(o,)), lambda: a.subtract(b)),
                                     ("numpy.multiply(out=)", lambda o: numpy.multiply(a, 1.5, out=(o,)), lambda: a.scale(1.5)),
                                     ("numpy.negative(out=)", lambda o: numpy.negative(a, out=(o,)), lambda: a.scale(-1)),
                                     ("numpy.true_divide(out=)", lambda o: numpy.true_divide(a, 4.0, out=(o,)), lambda: a.scale(0.25))):
                res.evaluations += 1
                try:
                    want = meth()
                    target = _copy.deepcopy(want).scale(0.0) if kind == "object" else want.copy()
                    if kind == "numpy":
                        numpy.asarray(target).view(numpy.ndarray).fill(0)
                        target = numpy.asarray(target).view(type(want))
                    ret = call(target)
                except Exception as e:
                    res.violation(f"C05/ufunc-out-form-raises form={name} backend={kind}", {"system": R.sysname(system), "exc": f"{type(e).__name__}: {e}"[:300]})
                    continue
                ok1, why1 = same(ret, want)
                ok2, why2 = same(target, want)
                if not ok1:
                    res.violation(f"C05/ufunc-out-form-returns-wrong-result form={name} backend={kind}", {"system": R.sysname(system), "why": why1})
                if not ok2:
                    res.violation(f"C05/ufunc-out-form-does-not-fill-out form={name} backend={kind}", {"system": R.sysname(system), "why": why2})
                res.cell(R.sysname(system), kind, name)
    res.sample({"part": "operators", "dim": dim})


def run_shard(spec, tier, seed):
    res = Result()
    {"lattice": run_lattice, "dims": run_dims, "operators": run_operators}[spec["part"]](spec, tier, seed, res)
    return res


def finalize(total, tier, seed):
    ops_seen = {c.split("|")[0] for c in total.cells if c.endswith("|object-lattice")}
    missing = [n for n in C.OPS if n not in ops_seen]
    if missing:
        total.inconc(f"operations never reached on the object lattice: {missing[:8]}")
    pairs = {c.split("|")[4] for c in total.cells if c.endswith("|pairing")}
    if len(pairs) < 20:
        total.inconc(f"only {len(pairs)} backend pairings observed")
    return {"object_lattice_cells": sum(1 for c in total.cells if c.endswith("|object-lattice")), "backend_pairings": sorted(pairs)}
