"""C13 — ranges, sign conventions and classification predicates.

(a) an always-on range hook on the dispatch layer asserts the closed bounds
    (phi, deltaphi in [-pi, pi]; theta, deltaangle in [0, pi]; rho, mag, rho2,
    mag2, t2 >= 0; t from tau >= 0 and never NaN) on *every* dispatch the
    workload causes, including the internal ones made by conversions;
(b) a boundary workload (axis-aligned, zero components, +-pi and its
    neighbours, on and next to the light cone, signed zeros, huge/tiny) on
    object, NumPy and Awkward vectors in float64 and on 60-digit objects;
(c) predicate oracles with margins (DESIGN §3 C13).
"""
from __future__ import annotations

import math

import mpmath
import numpy
from mpmath import mpf

from .. import backends as B
from .. import gen
from .. import refmodel as R
from .. import tap
from ..engine import LVec
from ..mplib import Q
from ..verdict import Result

LEVEL = "exploration"
AWKWARD_REGISTRATION_MIX = True
RULE = ("range/sign/predicate contracts on float64 object, NumPy and Awkward vectors and 60-digit objects, all 20 "
        "coordinate systems (all pairs for binary ones), operands from generic strata plus boundary strata (axis-aligned, "
        "zero components, phi at and next to +-pi, on/next to the light cone, signed zeros, 1e-300..1e150 magnitudes), "
        "tolerances 0..0.5 (0..2.5 and operand lengths 1e-90..1e90 for the angle predicates); a cell is (contract, coordinate signature, backend, stratum), non-trivial when the contract's "
        "precondition held (finite in-domain operands, outside the decision margin for strict/sign contracts) and it was evaluated")
ASSUMPTIONS = [
    "closed bounds (<= pi, >= 0, not NaN) are asserted unconditionally on finite in-domain operands; strict inequalities "
    "and sign equivalences only when the exact quantity is at least 1e-9 (relative) away from its boundary",
    "stored phi/theta/rho are returned verbatim by contract: ranges are asserted on computed values and on results of in-range operands",
    "on the thresholds themselves none of the causal predicates needs to be true ('never overlap', not 'exactly one')",
]
SHARD_TIMEOUT = {"quick": 900, "thorough": 7200}
PI = math.pi
MARGIN = mpf(10) ** -9
TOLS = [0.0, 1e-12, 1e-5, 1e-2, 0.2, 0.5]
ANGLE_TOLS = TOLS + [1.0, 1.5, 2.5]  # "all tolerances >= 0": beyond 1 the thresholds 1 - tol and -1 + tol change sign


# ---------------------------------------------------------------------------
# flattening results of any backend to python numbers

def flat(x):
    import awkward as ak

    if type(x) is Q:
        return [x.v]
    if isinstance(x, (ak.Array,)):
        return [v for v in ak.to_list(ak.flatten(x, axis=None))] if x.ndim > 1 else ak.to_list(x)
    if isinstance(x, ak.Record):
        raise TypeError("record")
    if isinstance(x, numpy.ndarray):
        return [v.item() for v in x.reshape(-1)]
    if isinstance(x, (numpy.generic,)):
        return [x.item()]
    return [x]


def _isnan(v):
    return v is None or v != v


class Raised(float):
    """An exception raised by a scalar (object-backend) call, carried as a NaN so that every contract whose
    precondition holds reports it, and every contract whose precondition does not hold (singular input) skips it."""

    def __new__(cls, exc):
        o = float.__new__(cls, "nan")
        o.exc = repr(exc)[:200]
        return o

    def __repr__(self):
        return f"<raised {self.exc}>"


def _guard(res, f):
    try:
        return f()
    except (ZeroDivisionError, OverflowError, ValueError) as e:
        res.count("object_call_raised:" + type(e).__name__)
        return Raised(e)


# ---------------------------------------------------------------------------
# (a) the always-on range hook

class RangeHook:
    """Closed bounds on every dispatch of the accessors named in the property."""

    def __init__(self, res):
        self.res = res
        self.on = True
        self.ctx = ""

    def enter(self, mod, args):
        return None

    def _v(self, mech, mod, got, args):
        self.res.violation(f"C13/range {mech} module={mod}", {"value": repr(got)[:80], "context": self.ctx,
                                                               "operands": [repr(a)[:160] for a in args]})

    def exit(self, mod, args, token, result, exc):
        if not self.on or exc is not None:
            return
        from vector._methods import AzimuthalXY, LongitudinalTheta, TemporalTau, _aztype, _ltype, _ttype

        try:
            vals = flat(result)
        except Exception:
            return
        pi = PI if not vals or not isinstance(vals[0], mpf) else +mpmath.pi
        self.res.count("hook:" + mod, len(vals))
        slack = 0 if vals and isinstance(vals[0], mpf) else 0.0
        if mod == "planar.phi":
            if _aztype(args[0]) is AzimuthalXY:
                for v in vals:
                    if _isnan(v) or not (-pi <= v <= pi):
                        if _finite_operand(args[0]):
                            self._v("phi-outside-[-pi,pi]", mod, v, args)
        elif mod == "planar.deltaphi":
            if all(_phi_in_range(a) for a in args):
                for v in vals:
                    if _isnan(v) or not (-pi <= v <= pi):
                        if all(_finite_operand(a) for a in args):
                            self._v("deltaphi-outside-[-pi,pi]", mod, v, args)
        elif mod in ("spatial.theta", "spatial.deltaangle"):
            vecs = [a for a in args]
            if mod == "spatial.theta" and _ltype(args[0]) is LongitudinalTheta:
                return
            for v in vals:
                if v is None:
                    continue
                if v == v and not (0 <= v <= pi):
                    self._v("angle-outside-[0,pi]", mod, v, args)
                elif v != v and all(_finite_operand(a) and _nonzero3(a) for a in vecs):
                    self._v("angle-is-NaN-for-finite-nonzero-operands", mod, v, args)
        elif mod in ("planar.rho", "planar.rho2", "spatial.mag", "spatial.mag2", "lorentz.t2"):
            if not all(_in_domain(a) for a in args):
                return
            for v in vals:
                if v is None:
                    continue
                if (v == v and v < 0) or (v != v and all(_finite_operand(a) for a in args)):
                    self._v("negative-or-NaN", mod, v, args)
        elif mod == "lorentz.t":
            if _ttype(args[0]) is TemporalTau and _in_domain(args[0]):
                for v in vals:
                    if v is None:
                        continue
                    if v != v or v < 0:
                        if _finite_operand(args[0]):
                            self._v("t-from-tau-negative-or-NaN", mod, v, args)


def _stored_lists(v):
    """all stored coordinate values of a vector operand (any backend) as lists of python numbers"""
    out = []
    for part in ("azimuthal", "longitudinal", "temporal"):
        if hasattr(v, part):
            try:
                for e in getattr(v, part).elements:
                    out.append(flat(e))
            except Exception:
                return None
    return out


def _finite_operand(v):
    cols = _stored_lists(v)
    if cols is None:
        return False
    for c in cols:
        for x in c:
            if x is None or x != x or abs(x) == float("inf") or (isinstance(x, mpf) and not mpmath.isfinite(x)):
                return False
            if not isinstance(x, mpf) and (abs(x) > 1e150 or 0 < abs(x) < 1e-150):
                return False  # squares overflow/underflow: outside what float64 can promise (DESIGN §2.3)
    return True


def _nonzero3(v):
    try:
        m = flat(v.mag)
        return all(x is not None and x == x and x > 0 for x in m)
    except Exception:
        return False


def _phi_in_range(v):
    from vector._methods import AzimuthalRhoPhi, _aztype

    if _aztype(v) is not AzimuthalRhoPhi:
        return True
    try:
        return all(x is not None and -PI <= x <= PI for x in flat(v.azimuthal.elements[1]))
    except Exception:
        return False


def _in_domain(v):
    """stored rho >= 0 and theta in [0, pi] (else mag etc. are legitimately signed)"""
    from vector._methods import AzimuthalRhoPhi, LongitudinalTheta, _aztype, _ltype

    try:
        if _aztype(v) is AzimuthalRhoPhi:
            if not all(x is not None and x >= 0 for x in flat(v.azimuthal.elements[0])):
                return False
        if hasattr(v, "longitudinal") and _ltype(v) is LongitudinalTheta:
            if not all(x is not None and 0 < x < PI for x in flat(v.longitudinal.elements[0])):
                return False
    except Exception:
        return False
    return True


# ---------------------------------------------------------------------------
# workload

def plan(tier, seed):
    specs = [{"part": "unary", "system": list(s)} for s in R.ALL_SYSTEMS]
    specs += [{"part": "angle", "dim": d, "asys": list(s)} for d in (2, 3, 4) for s in R.SYSTEMS[d]]
    specs += [{"part": "mp", "dim": d} for d in (2, 3, 4)]
    specs += [{"part": "results", "dim": d} for d in (2, 3, 4)]
    return specs


def boundary_vectors(dim, r):
    """exact Cartesian boundary vectors (label, RV)"""
    out = []
    vals = [0.0, 1.0, -1.0, 3.0, -4.0]
    tiny, huge = 1e-150, 1e150
    if dim == 2:
        for x in vals:
            for y in vals:
                out.append(("axis" if (x == 0) != (y == 0) else ("zero" if x == y == 0 else "grid"), (x, y)))
        out += [("negzero", (-1.0, -0.0)), ("negzero", (-1.0, 0.0)), ("nearpi", (-1.0, 1e-17)), ("nearpi", (-1.0, -1e-17)),
                ("nearpi", (-1.0, 5e-324)), ("nearpi", (-1.0, -5e-324)), ("tiny", (tiny, -tiny)), ("huge", (-huge, huge)),
                ("subnormal", (5e-324, 5e-324))]
    elif dim == 3:
        for x, y in ((0.0, 0.0), (1.0, 0.0), (0.0, -1.0), (3.0, 4.0), (-3.0, -4.0), (-1.0, 1e-17)):
            for z in (0.0, -0.0, 5.0, -5.0, 1e-17, tiny, -huge):
                out.append(("axis" if x == y == 0 and z != 0 else ("plane" if z == 0 else "grid"), (x, y, z)))
    else:
        for x, y, z in ((0.0, 0.0, 0.0), (3.0, 4.0, 0.0), (0.0, 0.0, 5.0), (3.0, 0.0, -4.0), (2.0, 3.0, 6.0), (-2.0, -3.0, -6.0)):
            m = math.sqrt(x * x + y * y + z * z)
            for t in (m, math.nextafter(m, 1e9), math.nextafter(m, -1e9) if m else -0.0, m * (1 + 1e-9), m * (1 - 1e-9),
                      2 * m + 1, 0.5 * m, 0.0, -m, -(2 * m + 1)):
                lab = "lightcone" if t == m else ("nearcone" if m and abs(abs(t) - m) < 1e-6 * m else ("rest" if m == 0 else "grid"))
                out.append((lab, (x, y, z, t)))
    return [(lab, R.RV(*[mpf(c) for c in comps])) for lab, comps in out]


def _exact(system, coords):
    """the vector exactly denoted by float stored coordinates; None if it is not representable or if a
    Cartesian component is outside [1e-150, 1e150] in magnitude (its square over/underflows in float64:
    outside what 'finite operands' can mean for a float64 library, DESIGN §2.3)"""
    try:
        rv = R.from_coords(system, [mpf(c) for c in coords])
    except (R.NotRepresentable, ZeroDivisionError, ValueError):
        return None
    for c in rv.comps():
        if c != 0 and not (mpf("1e-150") <= abs(c) <= mpf("1e150")):
            return None
    return rv


def _coords_f64(rv, system):
    try:
        return tuple(float(c) for c in R.to_coords(rv, system))
    except (R.NotRepresentable, ZeroDivisionError):
        return None


def _build(backend, system, rows, mom):
    if backend == "object":
        return None
    if backend == "numpy":
        return B.mk_numpy_cls(system, rows, mom)
    n = len(rows)
    counts = [1, 0, n - 1] if n > 1 else [n]
    return B.mk_awk(system, rows, mom and any(B.MOM_SPELL[x] for x in R.field_names(system)), counts=counts)


def run_unary(spec, tier, seed, res, hook):
    system = tuple(spec["system"])
    dim = len(system) + 1
    r = gen.rng(seed, "C13u", R.sysname(system))
    sn = R.sysname(system)
    cases = []  # (label, float coords)
    for lab, rv in boundary_vectors(dim, r):
        c = _coords_f64(rv, system)
        if c is not None and all(math.isfinite(x) for x in c):
            cases.append((lab, c))
    ng = 30 if tier == "quick" else 1500
    for _ in range(ng):
        rv, lab = gen.vec(r, dim, core=False, wide=True)
        c = _coords_f64(rv, system)
        if c is not None:
            cases.append(("generic", c))
    # stored-coordinate boundary values that do not come from a Cartesian vector
    gbase = cases[-1][1]
    if system[0] == "rhophi":
        base = gbase
        for ph in (PI, -PI, math.nextafter(PI, 0), math.nextafter(-PI, 0), 0.0, -0.0):
            cases.append(("phi-boundary", (base[0], ph) + tuple(base[2:])))
        cases.append(("rho-zero", (0.0,) + tuple(base[1:])))
    if dim >= 3 and system[1] == "theta":
        base = gbase
        for th in (0.0, PI, math.nextafter(PI, 0), 5e-324, PI / 2):
            cases.append(("theta-boundary", base[:2] + (th,) + tuple(base[3:])))
    if dim >= 3 and system[1] == "eta":
        base = gbase
        for et in (0.0, -0.0, 700.0, -700.0, 1e-300):
            cases.append(("eta-boundary", base[:2] + (et,) + tuple(base[3:])))
    if dim == 4 and system[2] == "tau":
        base = gbase
        for ta in (0.0, -0.0, -1e-300, -1e3, 1e-300, -abs(base[0]) * 0.5):
            cases.append(("tau-boundary", base[:3] + (ta,)))
    rows = [c for _, c in cases]
    labs = [l for l, _ in cases]
    exact = [_exact(system, c) for c in rows]
    for backend in ("object", "numpy", "awkward"):
        mom = backend != "numpy"
        hook.ctx = f"unary {sn} {backend}"
        if backend == "object":
            vecs = [B.mk_obj(system, c, mom) for c in rows]

            def get(name):
                return [_guard(res, lambda v=v: getattr(v, name)) for v in vecs]

            def call(name, *a):
                return [_guard(res, lambda v=v: getattr(v, name)(*a)) for v in vecs]
        else:
            try:
                arr = _build(backend, system, rows, mom)
            except Exception as e:
                res.inconc(f"cannot build {backend} array for {sn}: {e!r}"[:200])
                continue

            def get(name, arr=arr):
                return flat(getattr(arr, name))

            def call(name, *a, arr=arr):
                return flat(getattr(arr, name)(*a))

        def check(contract, values, pred, need=None):
            """pred(value, i) -> True (ok) / False (violated) / None (precondition not met)"""
            for i, v in enumerate(values):
                res.evaluations += 1
                ok = pred(v, i) if exact[i] is not None else None
                if ok is None:
                    res.count("precondition_not_met")
                    continue
                if not ok:
                    res.violation(f"C13/{contract} backend={backend}", {"system": sn, "stored": [repr(x) for x in rows[i]],
                                                                        "stratum": labs[i], "value": repr(v)})
                res.cell(contract, sn, backend, labs[i])

        xyin = system[0] == "xy"
        check("phi in [-pi,pi]", get("phi"), lambda v, i: (not _isnan(v) and -PI <= v <= PI) if (xyin or -PI <= rows[i][1] <= PI) else None)
        check("rho >= 0", get("rho"), lambda v, i: (not _isnan(v) and v >= 0) if (xyin or rows[i][0] >= 0) else None)
        check("rho2 >= 0", get("rho2"), lambda v, i: (not _isnan(v) and v >= 0))
        # conversions make internal dispatches that the hook watches
        for cname in ("to_xy", "to_rhophi"):
            try:
                getattr(arr if backend != "object" else vecs[labs.index("generic")], cname)()
            except Exception as e:
                res.violation(f"C13/exception-in-{cname} backend={backend}", {"system": sn, "exc": repr(e)[:200]})
        if dim >= 3:
            def indom(i):
                c = rows[i]
                if system[0] == "rhophi" and c[0] < 0:
                    return False
                if system[1] == "theta" and not (0 < c[2] < PI):
                    return False
                return True
            theta_stored = system[1] == "theta"
            check("theta in [0,pi]", get("theta"), lambda v, i: None if theta_stored else (None if _isnan(v) and (exact[i] is None or exact[i].mag == 0) else (not _isnan(v) and 0 <= v <= PI)))
            check("mag >= 0", get("mag"), lambda v, i: (not _isnan(v) and v >= 0) if indom(i) else None)
            check("mag2 >= 0", get("mag2"), lambda v, i: (not _isnan(v) and v >= 0) if indom(i) else None)
            cz = get("z")

            def sgn(v, i):
                e = exact[i]
                if e is None or not indom(i) or e.mag == 0:
                    return None
                if abs(e.z) <= MARGIN * e.mag or e.rho <= MARGIN * e.mag:
                    return None
                return not _isnan(v) and (v > 0) == (e.z > 0) and v != 0
            check("sign(costheta) = sign(z)", get("costheta"), sgn)
            check("sign(cottheta) = sign(z)", get("cottheta"), sgn)
            check("costheta in [-1,1]", get("costheta"), lambda v, i: (not _isnan(v) and -1 <= v <= 1) if indom(i) and exact[i] is not None else None)
            for cname in ("to_xyz", "to_rhophitheta", "to_rhophieta"):
                try:
                    getattr(arr if backend != "object" else vecs[labs.index("generic")], cname)()
                except Exception as e:
                    res.violation(f"C13/exception-in-{cname} backend={backend}", {"system": sn, "exc": repr(e)[:200]})
        if dim == 4:
            def indom4(i):
                c = rows[i]
                if system[0] == "rhophi" and c[0] < 0:
                    return False
                if system[1] == "theta" and not (0 < c[2] < PI):
                    return False
                return True
            tau_stored = system[2] == "tau"
            check("t2 >= 0", get("t2"), lambda v, i: (not _isnan(v) and v >= 0) if indom4(i) else None)
            check("t from tau >= 0 and never NaN", get("t"), lambda v, i: (not _isnan(v) and v >= 0) if (tau_stored and indom4(i)) else None)

            def tausign(v, i):
                e = exact[i]
                if tau_stored or e is None or not indom4(i):
                    return None
                s = e.tau2
                if abs(s) <= MARGIN * max(e.t2, e.mag2) or max(e.t2, e.mag2) == 0:
                    return None
                return not _isnan(v) and (v < 0) == (s < 0)
            check("tau from t negative exactly for spacelike", get("tau"), tausign)

            def fwd_timelike(i):
                e = exact[i]
                return e is not None and indom4(i) and e.t > 0 and e.tau2 > MARGIN * e.t2

            check("beta in [0,1) for forward timelike", get("beta"), lambda v, i: (not _isnan(v) and 0 <= v < 1) if fwd_timelike(i) else None)
            check("gamma >= 1 for forward timelike", get("gamma"), lambda v, i: (not _isnan(v) and v >= 1) if fwd_timelike(i) else None)

            def lightlike(i):
                e = exact[i]
                return e is not None and indom4(i) and e.t > 0 and e.tau2 == 0

            check("beta = 1 for lightlike", get("beta"), lambda v, i: (not _isnan(v) and abs(v - 1) <= 1e-12) if lightlike(i) else None)
            # causal predicates
            results = {}
            for tol in TOLS:
                results[tol] = (call("is_timelike", tol), call("is_lightlike", tol), call("is_spacelike", tol))
            for tol, (tl, ll, sl) in results.items():
                def nooverlap(v, i):
                    if not indom4(i) or exact[i] is None:
                        return None
                    return (bool(tl[i]) + bool(ll[i]) + bool(sl[i])) <= 1
                check(f"causal classes never overlap", tl, nooverlap)

                def tl_sign(v, i):
                    e = exact[i]
                    if e is None or not indom4(i):
                        return None
                    big = max(e.t2, e.mag2)
                    if big == 0 or abs(e.tau2) <= MARGIN * big:
                        return None
                    if bool(v) and not e.tau2 > 0:
                        return False
                    if tol == 0.0 and bool(v) != (e.tau2 > 0):
                        return False
                    return True
                check("is_timelike follows the sign of t^2-mag^2", tl, tl_sign)

                def sl_sign(v, i):
                    e = exact[i]
                    if e is None or not indom4(i):
                        return None
                    big = max(e.t2, e.mag2)
                    if big == 0 or abs(e.tau2) <= MARGIN * big:
                        return None
                    if bool(v) and not e.tau2 < 0:
                        return False
                    if tol == 0.0 and bool(v) != (e.tau2 < 0):
                        return False
                    return True
                check("is_spacelike follows the sign of t^2-mag^2", sl, sl_sign)
            for t1, t2 in zip(TOLS, TOLS[1:]):
                l1, l2 = results[t1][1], results[t2][1]
                check("is_lightlike never turns false when the tolerance grows", l1,
                      lambda v, i: (not (bool(l1[i]) and not bool(l2[i]))))
            check("lightlike vectors are is_lightlike for the default tolerance", call("is_lightlike"),
                  lambda v, i: bool(v) if (lightlike(i) and exact[i].t2 <= 1e6) else None)
    res.sample({"part": "unary", "system": sn, "n_cases": len(cases), "first_boundary": [repr(x) for x in rows[0]],
                "strata": sorted(set(labs))})


def run_angle(spec, tier, seed, res, hook):
    """deltaphi / deltaangle ranges and the parallel / antiparallel / perpendicular predicates"""
    dim = spec["dim"]
    s1 = tuple(spec["asys"])
    r = gen.rng(seed, "C13a", R.sysname(s1))
    k = 2 if dim == 2 else 3
    for s2 in R.SYSTEMS[dim]:
        pairs = []  # (label, rv_a, rv_b)
        ng = 6 if tier == "quick" else 120
        for _ in range(ng):
            a, _ = gen.vec(r, dim, core=True)
            b, _ = gen.vec(r, dim, core=True)
            pairs.append(("generic", a, b))
            f = gen.dyadic(r, 0.3, 3)
            pairs.append(("parallel", a, R.op_scale(a, f)))
            pairs.append(("antiparallel", a, R.op_scale(a, -f)))
            # perpendicular: rotate the 2-D part by 90 degrees (and zero z) -> exactly orthogonal in Cartesian
            if dim == 2:
                p = R.RV(-a.y * f, a.x * f)
            else:
                comps = [-a.y * f, a.x * f, 0] + ([a.t] if dim == 4 else [])
                p = R.RV(*comps)
            pairs.append(("perpendicular", a, p))
            # 45 degrees in the xy plane
            if dim == 2:
                q = R.RV(a.x - a.y, a.x + a.y)
                pairs.append(("45deg", a, q))
            # almost (anti)parallel: rotated by a tiny angle
            e = mpf(2) ** r.choice([-8, -16])
            comps = list(a.comps())
            comps[0], comps[1] = a.x - e * a.y, a.y + e * a.x
            pairs.append(("nearparallel", a, R.RV(*comps)))
            pairs.append(("nearantiparallel", a, R.op_scale(R.RV(*comps), -1)))
            # the same geometric configurations at very large / very small / mixed magnitudes (2^+-300 ~ 1e+-90):
            # the cosine does not depend on the lengths
            ka, kb = r.choice([(300, 300), (-300, -300), (300, -300), (-300, 300), (250, 0), (0, -250)])
            for lab_, a_, b_ in list(pairs[-6 if dim == 2 else -5:]):
                if lab_.startswith("near"):
                    continue
                pairs.append((lab_ + ":scaled", R.op_scale(a_, mpf(2) ** ka), R.op_scale(b_, mpf(2) ** kb)))
        rows_a, rows_b, labs, ex = [], [], [], []
        for lab, a, b in pairs:
            ca, cb = _coords_f64(a, s1), _coords_f64(b, s2)
            if ca is None or cb is None:
                continue
            ea, eb = _exact(s1, ca), _exact(s2, cb)
            if ea is None or eb is None:
                continue
            rows_a.append(ca); rows_b.append(cb); labs.append(lab); ex.append((ea, eb))
        if not rows_a:
            continue
        sn = f"{R.sysname(s1)}|{R.sysname(s2)}"
        for backend in ("object", "numpy", "awkward", "numpy*awkward"):
            hook.ctx = f"angle {sn} {backend}"
            try:
                if backend == "object":
                    VA = [B.mk_obj(s1, c, True) for c in rows_a]
                    VB = [B.mk_obj(s2, c, False) for c in rows_b]

                    def call(name, *a):
                        return [getattr(x, name)(y, *a) for x, y in zip(VA, VB)]
                else:
                    if backend == "numpy*awkward":
                        XA = _build("numpy", s1, rows_a, True)
                        XB = B.mk_awk(s2, rows_b, False)
                    else:
                        XA, XB = _build(backend, s1, rows_a, True), _build(backend, s2, rows_b, False)

                    def call(name, *a, XA=XA, XB=XB):
                        return flat(getattr(XA, name)(XB, *a))
            except Exception as e:
                res.inconc(f"cannot build {backend} operands for {sn}: {e!r}"[:200])
                continue

            def check(contract, values, pred):
                for i, v in enumerate(values):
                    res.evaluations += 1
                    ok = pred(v, i)
                    if ok is None:
                        res.count("precondition_not_met")
                        continue
                    if not ok:
                        res.violation(f"C13/{contract} backend={backend}",
                                      {"systems": sn, "a": [repr(x) for x in rows_a[i]], "b": [repr(x) for x in rows_b[i]],
                                       "stratum": labs[i], "value": repr(v)})
                    res.cell(contract, sn, backend, labs[i])

            try:
                check("deltaphi in [-pi,pi]", call("deltaphi"), lambda v, i: not _isnan(v) and -PI <= v <= PI)
                if dim >= 3:
                    check("deltaangle in [0,pi]", call("deltaangle"), lambda v, i: not _isnan(v) and 0 <= v <= PI)
                for tol in ANGLE_TOLS:
                    par, anti, perp = call("is_parallel", tol), call("is_antiparallel", tol), call("is_perpendicular", tol)

                    def cosang(i):
                        ea, eb = ex[i]
                        try:
                            return R.cos_between(R.project(ea, k), R.project(eb, k))
                        except R.Undefined:
                            return None

                    def judge(threshold_fn, truth_fn):
                        def pred(v, i):
                            c = cosang(i)
                            if c is None:
                                return None
                            if min(abs(c - th) for th in threshold_fn(mpf(tol))) < MARGIN:
                                return None
                            return bool(v) == truth_fn(c, mpf(tol))
                        return pred
                    check("is_parallel iff cos > 1 - tol", par, judge(lambda t: (1 - t,), lambda c, t: c > 1 - t))
                    check("is_antiparallel iff cos < -1 + tol", anti, judge(lambda t: (-1 + t,), lambda c, t: c < -1 + t))
                    check("is_perpendicular iff |cos| < tol", perp, judge(lambda t: (t, -t), lambda c, t: abs(c) < t))
            except Exception as e:
                res.violation(f"C13/exception-in-angle-predicates backend={backend}", {"systems": sn, "exc": repr(e)[:300]})
        res.sample({"part": "angle", "systems": sn, "pairs": len(rows_a), "strata": sorted(set(labs)),
                    "a0": [repr(x) for x in rows_a[0]], "b0": [repr(x) for x in rows_b[0]]}) if s2 == R.SYSTEMS[dim][0] else None


def run_mp(spec, tier, seed, res, hook):
    """the same closed bounds on 60-digit objects (the hook does the judging) + sign contracts"""
    from .. import engine as E

    dim = spec["dim"]
    r = gen.rng(seed, "C13mp", dim)
    n = 15 if tier == "quick" else 200
    names = {2: ["phi", "rho", "rho2"], 3: ["phi", "rho", "rho2", "theta", "mag", "mag2", "costheta", "cottheta"],
             4: ["phi", "rho", "rho2", "theta", "mag", "mag2", "costheta", "cottheta", "t", "t2", "tau", "beta", "gamma"]}[dim]
    for system in R.SYSTEMS[dim]:
        hook.ctx = f"mp {R.sysname(system)}"
        cases = [rv for _, rv in boundary_vectors(dim, r)] + [gen.vec(r, dim, wide=True)[0] for _ in range(n)]
        for rv in cases:
            try:
                l = LVec(rv, system, True)
                l.exact_coords()
            except (R.NotRepresentable, ZeroDivisionError):
                continue
            v = E.mat_mp(l)
            for nm in names:
                res.evaluations += 1
                try:
                    getattr(v, nm)
                except Exception as e:
                    res.violation(f"C13/exception-in-accessor backend=mp", {"name": nm, "system": R.sysname(system), "exc": repr(e)[:200]})
            for other_sys in (R.SYSTEMS[dim][0], R.SYSTEMS[dim][-1]):
                try:
                    o = E.mat_mp(LVec(cases[len(cases) // 2], other_sys))
                    v.deltaphi(o)
                    if dim >= 3:
                        v.deltaangle(o)
                except (R.NotRepresentable, ZeroDivisionError):
                    pass
            res.cell("closed bounds via hook", R.sysname(system), "mp")


def run_results(spec, tier, seed, res, hook):
    """the ranges hold for the coordinates of every vector the library *returns*: whatever a vector-valued operation stores
    as phi lies in [-pi, pi], as theta in [0, pi], as rho is >= 0 -- for operands whose own stored coordinates are in
    range, with azimuths close to the +-pi cut so that sums, differences and rotations cross it"""
    from .. import catalog as C
    from .. import engine as E
    from .. import workload as W

    dim = spec["dim"]
    ops = [op for op in C.OPS.values() if dim in op.dims and op.result == "vec"]
    for op in ops:
        r = gen.rng(seed, "C13res", op.name, dim)
        odims = op.other_dims(dim) if op.other_dims else (None,)
        nd = 6 if tier == "quick" else 60
        for di in range(nd):
            odim = odims[di % len(odims)]
            d = W.make_draw(op, dim, r, core=True, mp=False, odim=odim, momentum=op.momentum_only or di % 2 == 0)
            # move the azimuths to the cut: self just below +pi or just above -pi, the other vector on the other side
            def near_cut(rv, sign, width):
                c = list(rv.comps())
                rho = mpmath.sqrt(c[0] ** 2 + c[1] ** 2)
                if rho == 0:
                    return rv
                phi = sign * (mpmath.pi - width)
                c[0], c[1] = gen._round_dyadic(rho * mpmath.cos(phi), 40), gen._round_dyadic(rho * mpmath.sin(phi), 40)
                return R.RV(*c)
            w1 = mpf(r.choice(["0.05", "0.2", "0.6", "1e-9"]))
            w2 = mpf(r.choice(["0.05", "0.3", "0.9", "1e-9"]))
            sgn = r.choice([1, -1])
            d.self_rv = near_cut(d.self_rv, sgn, w1)
            d.args = [(k, near_cut(a, -sgn, w2)) if (k == "vec" and a.dim >= 2 and r.random() < 0.8) else (k, a) for k, a in d.args]
            for s_self, s_other, order in W.systems_for(d):
                if r.random() > (0.5 if tier == "quick" else 1.0) and s_self[0] != "rhophi":
                    continue
                try:
                    self_l, args = W.instantiate(d, s_self, s_other, order)
                    self_l.f64()
                    for a in args:
                        if isinstance(a, E.LVec):
                            a.f64()
                except R.NotRepresentable:
                    continue
                for backend in ("object", "numpy"):
                    try:
                        if backend == "object":
                            v, a = E.mat_obj(self_l), [E.mat_obj(x) for x in args]
                        else:
                            v = B.mk_numpy_cls(self_l.system, [self_l.f64()[0]], self_l.momentum)
                            a = [B.mk_numpy_cls(x.system, [x.f64()[0]], x.momentum) if isinstance(x, E.LVec) else E.mat_obj(x) for x in args]
                        hook.ctx = f"result of {op.name}"
                        out = op.call(v, *a)
                    except Exception:
                        res.count("result_pass_call_raised")
                        continue
                    res.evaluations += 1
                    try:
                        _, osys, cols, _, _ = B.stored_columns(out)
                    except Exception:
                        continue
                    for nm, col in zip(R.field_names(osys), cols):
                        for x in col:
                            x = float(x)
                            bad = None
                            if x != x:
                                continue  # NaN results are the value checks' business (C01/C02)
                            if nm == "phi" and not (-PI <= x <= PI):
                                bad = "stored-phi-of-a-result-outside-[-pi,pi]"
                            elif nm == "theta" and not (0 <= x <= PI):
                                bad = "stored-theta-of-a-result-outside-[0,pi]"
                            elif nm == "rho" and x < 0:
                                bad = "stored-rho-of-a-result-negative"
                            if bad:
                                res.violation(f"C13/range {bad} op={op.name}",
                                              {"backend": backend, "value": repr(x), "result_system": R.sysname(osys), "self": self_l.describe(),
                                               "args": [E.describe_arg(x_) for x_ in args]})
                    res.cell("result-coordinates-in-range", op.name, R.sysname(osys), backend)


def run_shard(spec, tier, seed):
    tap.install()
    res = Result()
    hook = RangeHook(res)
    tap.HOOKS.append(hook)
    try:
        {"unary": run_unary, "angle": run_angle, "mp": run_mp, "results": run_results}[spec["part"]](spec, tier, seed, res, hook)
    finally:
        tap.HOOKS.remove(hook)
    return res


def finalize(total, tier, seed):
    need = ["hook:planar.phi", "hook:planar.deltaphi", "hook:spatial.theta", "hook:spatial.deltaangle", "hook:planar.rho",
            "hook:spatial.mag", "hook:planar.rho2", "hook:spatial.mag2", "hook:lorentz.t2", "hook:lorentz.t"]
    for h in need:
        if total.counters.get(h, 0) < 50:
            total.inconc(f"range hook {h} saw only {total.counters.get(h, 0)} values")
    contracts = {c.split("|")[0] for c in total.cells}
    if len(contracts) < 22:
        total.inconc(f"only {len(contracts)} contracts evaluated")
    return {"contracts": sorted(contracts), "hook_values": {h: total.counters.get(h, 0) for h in need}}
