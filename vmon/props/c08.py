"""C08 — SymPy expressions agree with the numeric backends.

Symbolic vectors (real symbols) in every coordinate system and flavor; every
property and method gives expression(s); each is substituted with the exact
rationals of generated points and evaluated to 50 digits, then compared with
the 60-digit result of the *same* operation on the same point computed by the
real compute layer (MpLib), whenever MpLib's witness reports that the numeric
evaluation used no clamp, NaN replacement or sign convention — and with the
float64 object result (DESIGN §3 C08).
"""
from __future__ import annotations

import mpmath
from mpmath import mpf

from .. import backends as B
from .. import catalog as C
from .. import engine as E
from .. import gen
from .. import refmodel as R
from .. import workload as W
from ..engine import LVec
from ..mplib import WITNESS, Q
from ..verdict import Result

LEVEL = "exploration"
RULE = ("every catalogued operation except isclose x 20 coordinate systems of self x both flavors x sampled (quick: 3, thorough: "
        "all) systems of the other operand; symbolic vectors with real symbols, numeric scalar arguments as exact rationals; each "
        "resulting expression substituted at regular points (timelike, forward, off-axis, positive factors) and evaluated to 50 digits. "
        "A cell is (operation, dim, signature, flavor) and is non-trivial when at least one point was compared on which the numeric "
        "evaluation exercised none of the conventions SymPy cannot express (observed through the MpLib witness)")
ASSUMPTIONS = [
    "float literals inside the compute functions (0.5, 2.0, ** 0.5) become 15-digit SymPy Floats: agreement is judged at 1e-12 of the natural scale",
    "isclose (mapped to structural Eq) and symbolic scalar factors in polar storage (SympyLib.sign needs a number) are documented "
    "limitations of the symbolic backend and are not judged",
    "regularity of a point is observed on the real code path (witness), not assumed",
]
NSHARDS = {"quick": 48, "thorough": 96}
SHARD_TIMEOUT = {"quick": 1500, "thorough": 14000}
TOL = mpf(10) ** -12
FTOL = mpf(10) ** -9
SKIP = {"isclose"}
IRREGULAR = {"nan_to_num_nan", "nan_to_num_inf", "clamp_max", "clamp_min", "copysign_changes_value", "sign_nonpos", "sqrt_neg", "div0",
             "atan2_00", "pow_neg", "log0", "log_neg", "domain_arccos", "domain_arcsin", "domain_arccosh"}


_CONV = None


def _conventions():
    """"operation:convention" pairs that the pinned tree meets at regular operands (timelike, forward, off-axis, positive
    factors): the documented limitations of the symbolic backend, operation by operation (vmon/sympy_conventions.json,
    collected with tools/collect_sympy_conventions.sh over both tiers and several seeds)"""
    global _CONV
    if _CONV is None:
        import json
        import os

        with open(os.path.join(os.path.dirname(os.path.dirname(os.path.abspath(__file__))), "sympy_conventions.json")) as f:
            _CONV = set(json.load(f)["pairs"])
        if os.environ.get("VERIF_C08_COLLECT"):
            _CONV = _Everything()
    return _CONV


class _Everything:
    def __contains__(self, x):
        return True


def plan(tier, seed):
    items = [it for it in W.cost_table() if it[0] not in SKIP]
    items = [(n, d, c) for n, d, c in items]
    return [{"i": i, "items": b} for i, b in enumerate(W.pack(items, NSHARDS[tier]))] + [{"operators": True}]


def to_rational(x):
    import sympy

    x = mpf(x)
    if x == 0:
        return sympy.Integer(0)
    m, e = mpmath.frexp(x)
    # exact: mpf is a dyadic rational man * 2**exp
    sign, man, exp, bc = x._mpf_
    r = sympy.Integer(int(man)) * (sympy.Integer(2) ** int(exp))
    return -r if sign else r


def sym_vector(system, mom, tag):
    import sympy

    import vector

    dim = len(system) + 1
    names = R.field_names(system)
    syms = [sympy.Symbol(f"{n}_{tag}", real=True) for n in names]
    cls = getattr(vector, ("MomentumSympy" if mom else "VectorSympy") + f"{dim}D")
    return cls(**dict(zip(names, syms))), syms


def sym_result(op, res_, subs):
    """evaluate a symbolic result at a point -> canonical (mpf | bool | (system, stored mpf list, flavor, dim))"""
    import sympy
    from vector._methods import Momentum

    def ev(e):
        if isinstance(e, (bool,)):
            return e
        e = sympy.sympify(e)
        v = e.subs(subs)
        if v in (sympy.true, sympy.false):
            return bool(v)
        if isinstance(v, sympy.logic.boolalg.Boolean) or v.is_Relational:
            vv = v.evalf(50) if hasattr(v, "evalf") else v
            return bool(vv)
        n = v.evalf(50)
        if n.is_number and n.is_real is False:
            # acos / asin / sqrt of an argument that the expression's 15-digit Float literals push past the end of the
            # domain by a rounding (exactly antiparallel operands: acos(-1 - 1e-16) = pi - 1.5e-8 i): the imaginary part
            # is the square root of a rounding; the real part is judged with the conditioning factor of the definition
            re_, im_ = n.as_real_imag()
            if abs(im_) <= 1e-6 * max(1, abs(re_)):
                return mpf(str(re_))
        if n.is_real is False or not n.is_number:
            raise ValueError(f"not a real number: {n}")
        return mpf(str(n))
    if op.result == "vec":
        parts = [res_.azimuthal]
        if hasattr(res_, "longitudinal"):
            parts.append(res_.longitudinal)
        if hasattr(res_, "temporal"):
            parts.append(res_.temporal)
        system = []
        stored = []
        for p in parts:
            nm = type(p).__name__.lower()
            for key in ("rhophi", "xy", "theta", "eta", "tau"):
                if key in nm:
                    system.append(key)
                    break
            else:
                system.append("z" if nm.endswith("z") else "t")
            stored.extend(ev(e) for e in p.elements)
        return (tuple(system), stored, isinstance(res_, Momentum), len(system) + 1)
    return ev(res_)


def run_shard(spec, tier, seed):
    import sympy

    if spec.get("operators"):
        return run_operators(tier, seed)
    res = Result()
    nsig = [0]
    npoints = 3 if tier == "quick" else 8
    for opname, dim in spec["items"]:
        op = C.OPS[opname]
        r = gen.rng(seed, "C08", opname, dim)
        odims = op.other_dims(dim) if op.other_dims else (None,)
        for odim in odims:
            others = R.SYSTEMS[odim] if odim else [None]
            for s_self in R.SYSTEMS[dim]:
                oth = others if (tier == "thorough" or len(others) <= 3) else r.sample(others, 3)
                if opname in ("add", "subtract", "dot"):
                    oth = others
                orders = [None] if "order" not in op.args else (list(R.EULER_ORDERS) if tier == "thorough" else r.sample(list(R.EULER_ORDERS), 2))
                for s_other in oth:
                    for order in orders:
                        mom = op.momentum_only or r.random() < 0.5
                        # ---- regular points (generated first: the scalar arguments are shared by all points)
                        draws = W.make_batch(op, dim, r, npoints, odim=odim, momentum=mom, core=True, mp=False)
                        for d in draws:
                            # regular domain: forward timelike 4-vectors, positive factors
                            if dim == 4:
                                d.self_rv = gen.vec4(r, core=True, causal="timelike", forward=True)[0]
                            d.args = [(k, (gen.vec4(r, core=True, causal="timelike", forward=True)[0] if (k == "vec" and a.dim == 4) else a)) for k, a in d.args]
                        for k, a in draws[0].args:
                            pass
                        scal0 = []
                        for kind, (k, a) in zip(op.args, draws[0].args):
                            if kind == "factor":
                                a = abs(a)
                            if kind == "gamma":
                                a = abs(a)
                            scal0.append((k, a))
                        for d in draws:
                            d.args = [(k, a) if k == "vec" else scal0[j] for j, (k, a) in enumerate(d.args)]
                        try:
                            cases = [W.instantiate(d, s_self, s_other, order) for d in draws]
                        except R.NotRepresentable:
                            res.count("skip_operand_not_representable")
                            continue
                        # ---- the symbolic call, once per signature
                        sv, ssyms = sym_vector(s_self, mom, "a")
                        sargs, osyms = [], []
                        for a in cases[0][1]:
                            if isinstance(a, LVec):
                                ov, os_ = sym_vector(a.system, a.momentum, "b")
                                sargs.append(ov)
                                osyms = os_
                            elif isinstance(a, str):
                                sargs.append(a)
                            elif isinstance(a, dict):
                                sargs.append({k: to_rational(v) for k, v in a.items()})
                            elif isinstance(a, (list, tuple)):
                                sargs.append([to_rational(v) for v in a])
                            else:
                                sargs.append(to_rational(a))
                        cell = f"{op.name}|{dim}|{R.sysname(s_self)}|{R.sysname(s_other) if s_other else '-'}|{order or '-'}|{'mom' if mom else 'gen'}"
                        res.evaluations += 1
                        try:
                            sres = op.call(sv, *sargs)
                        except Exception as e:
                            res.violation(f"C08/symbolic-call-raises op={op.name}", {"cell": cell, "exc": f"{type(e).__name__}: {e}"[:300]})
                            continue
                        compared = 0
                        for (self_l, args) in cases:
                            # numeric truth: the real compute layer at 60 digits, with the witness
                            try:
                                num = E.eval_mp(op, self_l, args)
                            except Exception:
                                res.count("skip_numeric_raises")
                                continue
                            irr = sorted(WITNESS.events.keys() & IRREGULAR)
                            unlisted = [ev for ev in irr if f"{op.name}:{ev}" not in _conventions()]
                            for ev in irr:
                                res.add_to("conventions_met_at_regular_operands", f"{op.name}:{ev}")
                            if irr and not unlisted:
                                res.count("skip_point_uses_convention:" + ",".join(irr))
                                continue
                            if unlisted:
                                # the numeric evaluation of this operation met a convention (clamp, NaN replacement, sign) at a
                                # timelike, forward, off-axis point where the pinned tree meets none: not one of the documented
                                # limitations, so the point is compared like any other
                                res.count("point_meets_unlisted_convention_compared_anyway")
                            subs = dict(zip(ssyms, [to_rational(c) for c in self_l.exact_coords()]))
                            # the mp operands carry 60-digit coordinates; substitute those exact dyadics
                            for a in args:
                                if isinstance(a, LVec):
                                    subs.update(zip(osyms, [to_rational(c) for c in a.exact_coords()]))
                            try:
                                sym = sym_result(op, sres, subs)
                            except Exception as e:
                                res.violation(f"C08/expression-does-not-evaluate op={op.name}", {"cell": cell, "exc": f"{type(e).__name__}: {e}"[:300],
                                                                                                "expr": str(sres)[:300]})
                                break
                            unit = E.unit_scale(self_l, args)
                            gain = E.arg_gain(op, args)
                            if op.result == "bool":
                                if op.predicate_margin is not None:
                                    try:
                                        if op.predicate_margin(self_l.rv, *[E.ref_arg(a) for a in args]) < mpf(10) ** -9:
                                            continue
                                    except R.Undefined:
                                        continue
                                ok, why = (bool(sym) == bool(num)), f"symbolic {sym} numeric {num}"
                            elif op.result == "vec":
                                ssys, stored, smom, sdim = sym
                                if ssys != num.system or smom != num.momentum or sdim != num.dim:
                                    ok, why = False, f"symbolic result {R.sysname(ssys)}/{'mom' if smom else 'gen'} vs numeric {R.sysname(num.system)}/{'mom' if num.momentum else 'gen'}"
                                else:
                                    try:
                                        srv = R.from_coords(ssys, stored)
                                        err = E.rel_error(op, srv, num.rv, unit, gain)
                                        res.err("sympy-vs-mp:" + op.group, err)
                                        ok, why = err <= TOL, f"rel_error {mpmath.nstr(err, 5)}"
                                    except R.NotRepresentable:
                                        continue
                            else:
                                if op.result == "angle":
                                    err = R.angdiff(sym, num)
                                else:
                                    err = E.rel_error(op, sym, num, unit, gain) / E.cond_gain(op, self_l, args, TOL)
                                res.err("sympy-vs-mp:" + op.group, err)
                                ok, why = err <= TOL, f"rel_error {mpmath.nstr(err, 5)} symbolic {mpmath.nstr(sym, 20)} numeric {mpmath.nstr(num, 20)}"
                            if not ok:
                                res.violation(f"C08/expression-disagrees-with-numeric-backend op={op.name}",
                                              {"cell": cell, "why": why, "expr": str(sres)[:400], "self": self_l.describe(),
                                               "args": [E.describe_arg(a) for a in args],
                                               **({"numeric_path_met_convention_not_among_the_documented_limitations_of_this_operation": unlisted} if unlisted else {})})
                                break
                            # and the float64 object backend on the same (rounded) point
                            try:
                                fo = E.eval_obj(op, self_l, args)
                                if op.result == "vec":
                                    ferr = E.rel_error(op, fo, num.rv, unit, gain)
                                elif op.result == "bool":
                                    ferr = mpf(0)
                                elif op.result == "angle":
                                    ferr = R.angdiff(fo, num)
                                else:
                                    ferr = E.rel_error(op, fo, num, unit, gain)
                                res.err("float64-vs-mp", ferr)
                            except Exception:
                                pass
                            compared += 1
                        # ---- the same call on symbolic vectors whose coordinates are exact *numbers* (sympy Integer /
                        # Rational), alone or mixed with symbols: substituting before the call or after it is the same
                        nsig[0] += 1
                        if compared and (tier == "thorough" or nsig[0] % 2 == 0):
                            self_l, args = cases[0]
                            try:
                                WITNESS.reset()
                                num = E.eval_mp(op, self_l, args)
                                regular = not (WITNESS.events.keys() & IRREGULAR)
                            except Exception:
                                regular = False
                            if regular:
                                import vector
                                ncls = getattr(vector, ("MomentumSympy" if mom else "VectorSympy") + f"{dim}D")
                                svn = ncls(**dict(zip(R.field_names(s_self), [to_rational(c) for c in self_l.exact_coords()])))
                                sargs_n, subs_n = [], {}
                                for a, sa in zip(args, sargs):
                                    if isinstance(a, LVec):
                                        if nsig[0] % 4 == 0:   # numeric self with a symbolic second operand
                                            sargs_n.append(sa)
                                            subs_n.update(zip(osyms, [to_rational(c) for c in a.exact_coords()]))
                                        else:
                                            ocls = getattr(vector, ("MomentumSympy" if a.momentum else "VectorSympy") + f"{len(a.system) + 1}D")
                                            sargs_n.append(ocls(**dict(zip(R.field_names(a.system), [to_rational(c) for c in a.exact_coords()]))))
                                    else:
                                        sargs_n.append(sa)
                                res.evaluations += 1
                                try:
                                    sym = sym_result(op, op.call(svn, *sargs_n), subs_n)
                                except Exception as e:
                                    res.violation(f"C08/numeric-coordinates-call-raises-or-does-not-evaluate op={op.name}",
                                                  {"cell": cell, "exc": f"{type(e).__name__}: {e}"[:300], "self": self_l.describe()})
                                    sym = None
                                if sym is not None:
                                    unit = E.unit_scale(self_l, args)
                                    gain = E.arg_gain(op, args)
                                    ok, why = True, ""
                                    if op.result == "bool":
                                        margin_ok = True
                                        if op.predicate_margin is not None:
                                            try:
                                                margin_ok = op.predicate_margin(self_l.rv, *[E.ref_arg(a) for a in args]) >= mpf(10) ** -9
                                            except R.Undefined:
                                                margin_ok = False
                                        if margin_ok:
                                            ok, why = (bool(sym) == bool(num)), f"symbolic {sym} numeric {num}"
                                    elif op.result == "vec":
                                        ssys, stored, smom, sdim = sym
                                        if ssys != num.system or smom != num.momentum or sdim != num.dim:
                                            ok, why = False, "result system/flavor/dimension differs"
                                        else:
                                            try:
                                                err = E.rel_error(op, R.from_coords(ssys, stored), num.rv, unit, gain)
                                                ok, why = err <= TOL, f"rel_error {mpmath.nstr(err, 5)}"
                                            except R.NotRepresentable:
                                                pass
                                    else:
                                        err = R.angdiff(sym, num) if op.result == "angle" else E.rel_error(op, sym, num, unit, gain) / E.cond_gain(op, self_l, args, TOL)
                                        ok, why = err <= TOL, f"rel_error {mpmath.nstr(err, 5)} symbolic {mpmath.nstr(sym, 20)} numeric {mpmath.nstr(num, 20)}"
                                    if not ok:
                                        res.violation(f"C08/numeric-coordinates-expression-disagrees-with-numeric-backend op={op.name}",
                                                      {"cell": cell, "why": why, "self": self_l.describe(), "args": [E.describe_arg(a) for a in args],
                                                       "second_operand": "symbolic" if nsig[0] % 4 == 0 else "numeric"})
                                    res.cell("numeric-coordinates", cell)
                        if compared:
                            res.cell(cell)
                        else:
                            res.count("signature_without_regular_point")
                        if len(res.samples) < 2 and compared:
                            res.sample({"op": op.name, "cell": cell, "expression": str(sres)[:300], "points_compared": compared})
    return res


def run_operators(tier, seed):
    """operator and in-place spellings on symbolic vectors, evaluated at regular points against the same spellings
    on 60-digit objects"""
    import copy

    import sympy

    res = Result()
    r = gen.rng(seed, "C08ops")
    forms = {
        "v+w": lambda v, w, k: v + w, "v-w": lambda v, w, k: v - w, "v*k": lambda v, w, k: v * k, "k*v": lambda v, w, k: k * v,
        "v/k": lambda v, w, k: v / k, "-v": lambda v, w, k: -v, "+v": lambda v, w, k: +v,
        "v+=w": lambda v, w, k: _ip(v, "__iadd__", w), "v-=w": lambda v, w, k: _ip(v, "__isub__", w),
        "v*=k": lambda v, w, k: _ip(v, "__imul__", k), "v/=k": lambda v, w, k: _ip(v, "__itruediv__", k),
    }
    # histories: a derived vector is updated in place; the vector it was derived from (which nobody assigned to) and the
    # derived vector itself are then read, on the symbolic side and on the numeric side
    def hist(derive, meth, which):
        def f(v, w, k):
            q = derive(v, k)
            _ip(q, meth, w if meth in ("__iadd__", "__isub__") else k)
            return v if which == "source" else q
        return f
    derivers = {"rotateZ(k)": (2, lambda v, k: v.rotateZ(k)), "rotateX(k)": (3, lambda v, k: v.rotateX(k)),
                "scale2D(k)": (3, lambda v, k: v.scale2D(k)), "to_Vector3D()": (4, lambda v, k: v.to_Vector3D()),
                "to_Vector2D()": (3, lambda v, k: v.to_Vector2D()), "+v": (2, lambda v, k: +v), "copy.copy": (2, lambda v, k: copy.copy(v))}
    mindim = {}
    for dname, (md, d) in derivers.items():
        for meth, sym_ in (("__iadd__", "+="), ("__imul__", "*=")):
            for which in ("source", "derived"):
                nm = f"{which} after q=v.{dname}; q{sym_}{'w' if sym_ == '+=' else 'k'}"
                forms[nm] = hist(d, meth, which)
                mindim[nm] = md
    scal = {"v@w": lambda v, w, k: v @ w, "abs(v)": lambda v, w, k: abs(v), "v**2": lambda v, w, k: v**2}
    for dim in (2, 3, 4):
        for s_self in R.SYSTEMS[dim]:
            for s_other in ([R.SYSTEMS[dim][0], R.SYSTEMS[dim][-1], s_self] if tier == "quick" else R.SYSTEMS[dim]):
                mom = r.random() < 0.5
                for fname, f in {**forms, **scal}.items():
                    if mindim.get(fname, 2) > dim:
                        continue
                    sv, ssyms = sym_vector(s_self, mom, "a")
                    if "to_Vector" in fname:  # the in-place operand must have the derived vector's dimension
                        ddim = 3 if "3D" in fname else 2
                        s_o = s_other[: ddim - 1]
                    else:
                        s_o = s_other
                    sw, osyms = sym_vector(s_o, False, "b")
                    kq = gen.dyadic(r, 0.5, 3)
                    res.evaluations += 1
                    cell = f"op:{fname}|{dim}|{R.sysname(s_self)}|{R.sysname(s_other)}|{'mom' if mom else 'gen'}"
                    try:
                        sres = f(sv, sw, to_rational(kq))
                    except Exception as e:
                        res.violation(f"C08/symbolic-call-raises op={fname}", {"cell": cell, "exc": f"{type(e).__name__}: {e}"[:300]})
                        continue
                    for rep in range(2 if tier == "quick" else 5):
                        a_rv = gen.vec4(r, core=True, causal="timelike", forward=True)[0] if dim == 4 else gen.vec(r, dim, core=True)[0]
                        b_rv = gen.vec4(r, core=True, causal="timelike", forward=True)[0] if dim == 4 else gen.vec(r, dim, core=True)[0]
                        if dim == 4 and (s_self[2] == "tau" or s_other[2] == "tau"):
                            if fname == "-v":
                                continue  # negative times are not representable in tau storage
                            if fname in ("v-w", "v-=w"):
                                # a difference that is itself forward timelike: a = b + c with c forward timelike
                                a_rv = R.RV(*[p_ + q_ for p_, q_ in zip(a_rv.comps(), b_rv.comps())])
                        try:
                            if len(s_o) != len(s_other):
                                b_rv = R.project(b_rv, len(s_o) + 1)
                            al, bl = LVec(a_rv, s_self, mom), LVec(b_rv, s_o, False)
                            al.exact_coords(), bl.exact_coords()
                        except R.NotRepresentable:
                            continue
                        WITNESS.reset()
                        try:
                            num = f(E.mat_mp(al), E.mat_mp(bl), Q(kq))
                        except Exception:
                            continue
                        if WITNESS.events.keys() & IRREGULAR:
                            res.count("skip_point_uses_convention")
                            continue
                        subs = dict(zip(ssyms, [to_rational(c) for c in al.exact_coords()]))
                        subs.update(zip(osyms, [to_rational(c) for c in bl.exact_coords()]))

                        class _O:  # minimal op description for sym_result
                            result = "scalar" if fname in scal else "vec"
                            name = fname
                        try:
                            sym = sym_result(_O, sres, subs)
                        except Exception as e:
                            res.violation(f"C08/expression-does-not-evaluate op={fname}", {"cell": cell, "exc": f"{type(e).__name__}: {e}"[:300]})
                            break
                        unit = max(abs(c) for c in list(a_rv.comps()) + list(b_rv.comps()))
                        if fname in scal:
                            nv = num.v if type(num) is Q else mpf(num)
                            err = abs(sym - nv) / max(abs(nv), unit**2)
                        else:
                            nres = E.VecResult(num)
                            ssys, stored, smom, sdim = sym
                            if ssys != nres.system:
                                res.violation(f"C08/expression-disagrees-with-numeric-backend op={fname}",
                                              {"cell": cell, "why": f"result system {R.sysname(ssys)} vs {R.sysname(nres.system)}"})
                                break
                            try:
                                srv = R.from_coords(ssys, stored)
                            except R.NotRepresentable:
                                continue
                            err = max(abs(p - q) for p, q in zip(srv.comps(), nres.rv.comps())) / (unit * max(1, kq))
                        res.err("sympy-vs-mp:operators", err)
                        if not err <= TOL:
                            res.violation(f"C08/expression-disagrees-with-numeric-backend op={fname}",
                                          {"cell": cell, "why": f"rel_error {mpmath.nstr(err, 5)}", "expr": str(sres)[:300]})
                            break
                        res.cell(cell)
    # ---- scale factors that are *symbols with a declared sign* (positive=True / negative=True): SympyLib.sign decides from the
    # assumptions, so polar-stored vectors turn by pi / flip eta for a negative symbol exactly as for a negative number
    import sympy as _sp
    kp, kn = _sp.Symbol("k_pos", positive=True), _sp.Symbol("k_neg", negative=True)
    sforms = {"v*k": lambda v, k: v * k, "k*v": lambda v, k: k * v, "v/k": lambda v, k: v / k, "v.scale(k)": lambda v, k: v.scale(k)}
    for dim in (2, 3, 4):
        for s_self in R.SYSTEMS[dim]:
            mom = r.random() < 0.5
            sv, ssyms = sym_vector(s_self, mom, "a")
            for ksym, sgn in ((kp, 1), (kn, -1)):
                if sgn < 0 and dim == 4 and s_self[2] == "tau":
                    continue  # negative times are not representable in tau storage
                for fname, f in sforms.items():
                    res.evaluations += 1
                    cell = f"op:{fname} [symbolic factor, {'positive' if sgn > 0 else 'negative'}]|{dim}|{R.sysname(s_self)}"
                    try:
                        sres = f(sv, ksym)
                    except Exception as e:
                        res.violation(f"C08/symbolic-call-raises op={fname}", {"cell": cell, "exc": f"{type(e).__name__}: {e}"[:300]})
                        continue
                    a_rv = gen.vec4(r, core=True, causal="timelike", forward=True)[0] if dim == 4 else gen.vec(r, dim, core=True)[0]
                    kq = sgn * gen.dyadic(r, 0.5, 3)
                    try:
                        al = LVec(a_rv, s_self, mom)
                        al.exact_coords()
                        num = f(E.mat_mp(al), Q(kq))
                        nres = E.VecResult(num)
                    except Exception:
                        continue
                    subs = dict(zip(ssyms, [to_rational(c) for c in al.exact_coords()]))
                    subs[ksym] = to_rational(kq)

                    class _O:
                        result = "vec"
                        name = fname
                    try:
                        ssys, stored, smom, sdim = sym_result(_O, sres, subs)
                        srv = R.from_coords(ssys, stored)
                    except R.NotRepresentable:
                        continue
                    except Exception as e:
                        res.violation(f"C08/expression-does-not-evaluate op={fname}", {"cell": cell, "exc": f"{type(e).__name__}: {e}"[:300]})
                        continue
                    unit = max(abs(c) for c in a_rv.comps()) * max(1, abs(kq), 1 / abs(kq))
                    err = max(abs(p_ - q_) for p_, q_ in zip(srv.comps(), nres.rv.comps())) / unit
                    if ssys != nres.system or not err <= TOL:
                        res.violation(f"C08/expression-disagrees-with-numeric-backend op={fname}",
                                      {"cell": cell, "why": f"rel_error {mpmath.nstr(err, 5)}; systems {R.sysname(ssys)} / {R.sysname(nres.system)}",
                                       "expr": str(sres)[:300], "factor": f"symbol declared {'positive' if sgn > 0 else 'negative'}, value {mpmath.nstr(kq, 8)}"})
                    res.cell(cell)
    # ---- isclose: the symbolic backend compares structurally (a documented limitation: no tolerance), so only the two
    # clear-cut cases are judged -- a vector is close to an identical one for every tolerance (including 0, 0), and is not
    # close to a clearly different one -- against the object backend on the same numbers
    import vector
    for dim in (2, 3, 4):
        for s_self in R.SYSTEMS[dim]:
            mom = r.random() < 0.5
            a_rv = gen.vec4(r, core=True, causal="timelike", forward=True)[0] if dim == 4 else gen.vec(r, dim, core=True)[0]
            try:
                al = LVec(a_rv, s_self, mom)
                far = LVec(R.op_scale(a_rv, mpf("1.75")), s_self, mom)
                al.exact_coords(), far.exact_coords()
            except R.NotRepresentable:
                continue
            ncls = getattr(vector, ("MomentumSympy" if mom else "VectorSympy") + f"{dim}D")
            mkn = lambda l: ncls(**dict(zip(R.field_names(s_self), [to_rational(c) for c in l.exact_coords()])))  # noqa: E731
            sv, _ss = sym_vector(s_self, mom, "a")
            for tname, kw in (("default", {}), ("rtol=0,atol=0", {"rtol": 0, "atol": 0}), ("rtol=1e-9", {"rtol": 1e-9, "atol": 0})):
                for cname, x, y, want in (("identical numbers", mkn(al), mkn(al), True), ("clearly different numbers", mkn(al), mkn(far), False),
                                          ("the same symbols", sv, sv, True)):
                    res.evaluations += 1
                    cell = f"op:isclose|{dim}|{R.sysname(s_self)}|{cname}|{tname}"
                    try:
                        got = x.isclose(y, **kw)
                        gotb = bool(got)
                    except Exception as e:
                        res.violation("C08/symbolic-call-raises op=isclose", {"cell": cell, "exc": f"{type(e).__name__}: {e}"[:200]})
                        continue
                    if cname != "the same symbols":
                        ob = bool(E.mat_obj(al).isclose(E.mat_obj(al if want else far), **kw))
                        if ob != want:
                            continue  # (not a clear-cut case for the numeric backend either)
                    if gotb != want:
                        res.violation("C08/expression-disagrees-with-numeric-backend op=isclose",
                                      {"cell": cell, "symbolic": repr(got)[:120], "numeric": want})
                    res.cell(cell)
    res.sample({"part": "operators", "forms": list(forms) + list(scal)})
    return res


def _ip(v, meth, other):
    out = getattr(v, meth)(other)
    return out


def finalize(total, tier, seed):
    ops_seen = {c.split("|")[0] for c in total.cells}
    missing = [n for n in C.OPS if n not in ops_seen and n not in SKIP]
    if missing:
        total.inconc(f"operations never compared symbolically: {missing[:10]}")
    return {"operations_compared": len(ops_seen), "skipped_by_design": sorted(SKIP),
            "irregular_points_skipped": {k: v for k, v in total.counters.items() if k.startswith("skip_point_uses_convention")},
            "conventions_met_at_regular_operands": sorted(total.sets.get("conventions_met_at_regular_operands", ()))}
