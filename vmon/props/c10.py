"""C10 — rotations are proper rotations and their spellings agree.

Law monitor on rotateX/Y/Z, rotate_axis, rotate_euler (12 orders, both letter
cases), rotate_nautical, rotate_quaternion for 2-D (rotateZ), 3-D and 4-D
vectors in every coordinate system, on 60-digit and float64 object vectors
(DESIGN §3 C10).
"""
from __future__ import annotations

import mpmath
from mpmath import mpf

from .. import backends as B
from .. import engine as E
from .. import gen
from .. import laws as L
from .. import refmodel as R
from ..engine import LVec
from ..mplib import Q
from ..verdict import Result

LEVEL = "exploration"
RULE = ("algebraic laws of rotations on the public API for every coordinate system of the rotated vector "
        "(2 + 6 + 12), every Euler order in both letter cases, axes in all 6 systems, angles in all quadrants, "
        "near multiples of pi/2 and large; a cell is (law, vector system, variant, backend), non-trivial when both "
        "sides of the law were evaluated and compared"
        " Backends: 60-digit objects, float64 objects, one-element NumPy and Awkward arrays.")
ASSUMPTIONS = [
    "laws are compared through the monitor's own readout of stored coordinates and its own conversions",
    "rotate_euler(phi,theta,psi,'abc') is the documented product rotateA(-psi) o rotateB(-theta) o rotateC(-phi) (ROOT EulerAngles); "
    "the same rule is checked against explicit matrices in C02",
    "float64 tolerance 1e-9 relative to the vector's magnitude",
]
DRAWS = {"quick": 16, "thorough": 600}
SHARD_TIMEOUT = {"quick": 900, "thorough": 7200}


def plan(tier, seed):
    return [{"vsys": list(s), "mode": m} for s in R.ALL_SYSTEMS for m in ("mp", "f64", "numpy", "awkward", "record")]


def _temporal_untouched(J, cell, law, V, W_, det):
    """t / tau stored coordinate of the result is the operand's, bit for bit, same type"""
    if not hasattr(V, "temporal"):
        return
    try:
        wt = W_.temporal
    except Exception as e:  # e.g. an Awkward "4D" result that lost its temporal field
        J.exact("time/proper time untouched bit-for-bit: " + law, cell, False,
                {**det, "operand_temporal": repr(V.temporal), "result_temporal": f"{type(e).__name__}: {e}"[:160]})
        return
    ok = type(wt) is type(V.temporal)
    if ok and isinstance(V.temporal, tuple):
        a, b = tuple.__getitem__(V.temporal, 0), tuple.__getitem__(W_.temporal, 0)
        ok = (a is b) or (B.bits(a) == B.bits(b))
    elif ok:  # one-element array: compare the stored temporal column
        (_, sv, cv, _, _), (_, sw, cw, _, _) = B.stored_columns(V), B.stored_columns(W_)
        ok = sv[-1] == sw[-1] and [B.bits(float(x)) for x in cv[-1]] == [B.bits(float(x)) for x in cw[-1]]
    J.exact("time/proper time untouched bit-for-bit: " + law, cell, ok,
            {**det, "operand_temporal": repr(V.temporal), "result_temporal": repr(wt)})


def run_shard(spec, tier, seed):
    res = Result()
    vsys = tuple(spec["vsys"])
    dim = len(vsys) + 1
    mode = L.Mode(spec["mode"])
    J = L.Judge(res, "C10", mode)
    core = not mode.mp
    r = gen.rng(seed, "C10", R.sysname(vsys), mode.name)
    S3 = R.SYSTEMS[3]
    sname = R.sysname(vsys)

    def mk(rv, system, mom=False):
        l = LVec(rv, system, mom)
        l.exact_coords()
        return l

    def genv():
        if dim == 4 and vsys[2] == "tau":
            return gen.vec4(r, core=core, wide=not core, forward=True)
        return gen.vec(r, dim, core=core, wide=not core)

    for di in range(DRAWS[tier] if mode.name in ("mp", "f64") else max(4, DRAWS[tier] // 5)):
        a_rv, alab = genv()
        b_rv, _ = genv()
        c_rv, _ = genv()
        try:
            ls = [mk(v, vsys, (di + k) % 2 == 0) for k, v in enumerate((a_rv, b_rv, c_rv))]
        except R.NotRepresentable:
            res.count("skip_operand_not_representable")
            continue
        A, Bv, Cv = [mode.vec(l) for l in ls]
        ea, eb, ec = [mode.exact(l) for l in ls]
        unit = L.maxabs(ea, eb, ec)
        det = {"a": ls[0].describe(), "label": alab}
        ang = gen.angle(r, core)
        ang2 = gen.angle(r, core)
        na, nb = mode.num(ang), mode.num(ang2)

        def rot_invariants(law, cell, f):
            """f: vector -> rotated vector; length, dot products and handedness preserved"""
            Ra, Rb, Rc = f(A), f(Bv), f(Cv)
            ra, rb, rc = (L.rv_of(v)[0] for v in (Ra, Rb, Rc))
            k = 2 if dim == 2 else 3

            def d(u, v):
                return sum(p * q for p, q in zip(u.comps()[:k], v.comps()[:k]))
            J.num("length preserved: " + law, cell, d(ra, ra), d(ea, ea), unit**2, det)
            J.num("dot product preserved: " + law, cell, d(ra, rb), d(ea, eb), unit**2, det)
            if k == 3:
                def trip(u, v, w):
                    cx = R.op_cross(R.project(v, 3), R.project(w, 3))
                    return u.x * cx.x + u.y * cx.y + u.z * cx.z
                J.num("handedness (triple product) preserved: " + law, cell, trip(ra, rb, rc), trip(ea, eb, ec), unit**3, det)
            else:
                J.num("orientation (2-D cross) preserved: " + law, cell, ra.x * rb.y - ra.y * rb.x,
                      ea.x * eb.y - ea.y * eb.x, unit**2, det)
            _temporal_untouched(J, cell, law, A, Ra, det)
            J.exact("rotation keeps class: " + law, cell, type(Ra) is type(A), {"got": type(Ra).__name__, "self": type(A).__name__})
            return Ra

        # ---------------- rotateZ (all dimensions) / rotateX / rotateY
        axes = ["Z"] if dim == 2 else ["X", "Y", "Z"]
        for axn in axes:
            meth = "rotate" + axn
            cell = f"{sname}|{axn}"
            Ra = rot_invariants(meth, cell, lambda v: getattr(v, meth)(na))
            d2 = {**det, "angle": mpmath.nstr(ang, 25), "angle2": mpmath.nstr(ang2, 25)}
            J.vec("composition R(a)R(b)=R(a+b): " + meth, cell, getattr(Ra, meth)(nb), getattr(A, meth)(mode.num(ang + ang2)), unit, d2)
            J.vec("inverse R(-a)R(a)=1: " + meth, cell, getattr(Ra, meth)(mode.num(-ang)), A, unit, d2)
        if dim == 2:
            if di == 0:
                res.sample({"vector": ls[0].describe(), "angle": mpmath.nstr(ang, 20), "mode": mode.name})
            continue

        # ---------------- rotate_axis, axis in every 3-D system
        for s3 in S3:
            n_rv, _ = gen.vec3(r, core=True)
            try:
                n_l = mk(n_rv, s3, di % 2 == 1)
                n2_l = mk(R.op_scale(n_rv, gen.dyadic(r, 0.2, 7)), s3)
            except R.NotRepresentable:
                continue
            N, N2 = mode.vec(n_l), mode.vec(n2_l)
            cell = f"{sname}|axis:{R.sysname(s3)}"
            d3 = {**det, "axis": n_l.describe(), "angle": mpmath.nstr(ang, 25)}
            Ra = rot_invariants("rotate_axis", cell, lambda v: v.rotate_axis(N, na))
            if mode.name in ("numpy", "awkward") and dim == 4:
                # the axis is a secondary argument: held in a backend of higher priority than the vector (object vector, array
                # axis; NumPy vector, Awkward axis) it still rotates a 4-D vector into a 4-D vector with its time untouched
                import vector as _v
                lows = [E.mat_obj(ls[0])] + ([B.mk_numpy_cls(ls[0].system, [ls[0].f64()[0]], ls[0].momentum)] if mode.name == "awkward" else [])
                for low in lows:
                    try:
                        mixed = low.rotate_axis(N, na)
                    except Exception:
                        res.count("rotate_axis_with_axis_of_higher_priority_raises")
                        continue
                    J.exact("rotate_axis about an axis of a higher-priority backend keeps the vector 4-D", cell,
                            hasattr(mixed, "temporal") and type(mixed).__name__.endswith("4D"), {**d3, "got": type(mixed).__name__})
                    if hasattr(mixed, "temporal"):
                        _temporal_untouched(J, cell, "rotate_axis [axis of a higher-priority backend]", low, mixed, det)
            J.vec("rotate_axis ignores the axis length", cell, A.rotate_axis(N2, na), Ra, unit, d3)
            # ... whatever the length: far below and far above any absolute threshold (squares still representable)
            for e_ in (-60, -400, 400):
                try:
                    n3_l = mk(R.op_scale(n_rv, mpf(2) ** e_), s3)
                except R.NotRepresentable:
                    continue
                J.vec(f"rotate_axis ignores the axis length [axis x 2^{e_}]", cell, A.rotate_axis(mode.vec(n3_l), na), Ra, unit, d3)
            J.vec("composition R(a)R(b)=R(a+b): rotate_axis", cell, Ra.rotate_axis(N, nb), A.rotate_axis(N, mode.num(ang + ang2)), unit, d3)
            J.vec("inverse R(-a)R(a)=1: rotate_axis", cell, Ra.rotate_axis(N, mode.num(-ang)), A, unit, d3)
            # quaternion (cos a/2, n sin a/2)
            ne = mode.exact(n_l)
            nn = ne.mag
            h = ang / 2
            q = [mpmath.cos(h)] + [mpmath.sin(h) * c / nn for c in (ne.x, ne.y, ne.z)]
            Qr = A.rotate_quaternion(*[mode.num(v) for v in q])
            J.vec("rotate_quaternion(cos a/2, n sin a/2)=rotate_axis(n,a)", cell, Qr, Ra, unit, d3)
            _temporal_untouched(J, cell, "rotate_quaternion", A, Qr, det)
        # coordinate axes: only representable with z-longitudinal storage (ex, ey also in theta/eta)
        for axn, comps in (("X", (1, 0, 0)), ("Y", (0, 1, 0)), ("Z", (0, 0, 1))):
            for s3 in S3:
                try:
                    e_l = mk(R.RV(*comps), s3)
                except R.NotRepresentable:
                    continue
                cell = f"{sname}|e{axn}:{R.sysname(s3)}"
                J.vec("rotate_axis(e_x|y|z, a)=rotateX|Y|Z(a)", cell, A.rotate_axis(mode.vec(e_l), na),
                      getattr(A, "rotate" + axn)(na), unit, {**det, "angle": mpmath.nstr(ang, 25)})
                # the negative axis of any length turns the other way
                k = gen.dyadic(r, 0.25, 6)
                try:
                    m_l = mk(R.RV(*[-k * c for c in comps]), s3)
                except R.NotRepresentable:
                    continue
                J.vec("rotate_axis(-k e_x|y|z, a)=rotateX|Y|Z(-a)", cell, A.rotate_axis(mode.vec(m_l), na),
                      getattr(A, "rotate" + axn)(mode.num(-ang)), unit, {**det, "angle": mpmath.nstr(ang, 25), "axis": m_l.describe()})
        # axes lying in a coordinate plane (one component exactly zero, the others of either sign)
        for zi in range(3):
            comps = [r.choice([1, -1]) * gen.dyadic(r, 0.5, 4) for _ in range(3)]
            comps[zi] = mpf(0)
            if di % 2:
                comps = [-abs(c) for c in comps]
            n_rv = R.RV(*comps)
            for s3 in (S3[(di + zi) % len(S3)], S3[0]):
                try:
                    n_l = mk(n_rv, s3)
                except R.NotRepresentable:
                    continue
                cell = f"{sname}|plane-axis{zi}:{R.sysname(s3)}"
                d3 = {**det, "axis": n_l.describe(), "angle": mpmath.nstr(ang, 25)}
                Rp = A.rotate_axis(mode.vec(n_l), na)
                ne = mode.exact(n_l)
                q = [mpmath.cos(ang / 2)] + [mpmath.sin(ang / 2) * c / ne.mag for c in (ne.x, ne.y, ne.z)]
                J.vec("rotate_quaternion(cos a/2, n sin a/2)=rotate_axis(n,a) [axis in a coordinate plane]", cell,
                      A.rotate_quaternion(*[mode.num(v) for v in q]), Rp, unit, d3)
                J.vec("inverse R(-a)R(a)=1: rotate_axis [axis in a coordinate plane]", cell, Rp.rotate_axis(mode.vec(n_l), mode.num(-ang)), A, unit, d3)

        # ---------------- Euler: every order, both letter cases
        phi, theta, psi = gen.angle(r, core), gen.angle(r, core), gen.angle(r, core)
        nphi, nth, nps = mode.num(phi), mode.num(theta), mode.num(psi)
        d4 = {**det, "phi": mpmath.nstr(phi, 25), "theta": mpmath.nstr(theta, 25), "psi": mpmath.nstr(psi, 25)}
        for order in R.EULER_ORDERS:
            a_, b_, c_ = order.upper()
            cell = f"{sname}|{order}"
            Er = rot_invariants("rotate_euler", cell, lambda v: v.rotate_euler(nphi, nth, nps, order))
            step = getattr(getattr(getattr(A, "rotate" + c_)(mode.num(-phi)), "rotate" + b_)(mode.num(-theta)), "rotate" + a_)(mode.num(-psi))
            J.vec("rotate_euler(abc)=rotateA(-psi) o rotateB(-theta) o rotateC(-phi)", cell, Er, step, unit, {**d4, "order": order})
            J.vec("rotate_euler order is case-insensitive", cell, A.rotate_euler(nphi, nth, nps, order.upper()), Er, unit, {**d4, "order": order})
            # against the explicit reference matrix as well
            J.vec("rotate_euler(abc)=reference matrix", cell, Er, R.op_rotate_euler(ea, phi, theta, psi, order), unit, {**d4, "order": order})
        J.vec("rotate_euler default order is zxz", sname + "|default", A.rotate_euler(nphi, nth, nps), A.rotate_euler(nphi, nth, nps, "zxz"), unit, d4)
        Nr = rot_invariants("rotate_nautical", sname + "|nautical", lambda v: v.rotate_nautical(nphi, nth, nps))
        J.vec("rotate_nautical(yaw,pitch,roll)=rotate_euler(roll,pitch,yaw,'zyx')", sname + "|nautical", Nr,
              A.rotate_euler(nps, nth, nphi, "zyx"), unit, d4)
        # ---------------- the documented keyword spelling of every rotation equals the positional one (the names are
        # written here, not read from the live signatures)
        n_rv, _ = gen.vec3(r, core=True)
        try:
            KN = mode.vec(mk(n_rv, S3[di % len(S3)]))
        except R.NotRepresentable:
            KN = None
        hq = [mpmath.cos(ang / 2), mpmath.sin(ang / 2) * mpf("0.6"), mpf(0), mpmath.sin(ang / 2) * mpf("0.8")]
        nq = [mode.num(v) for v in hq]
        kwforms = [
            ("rotateX(angle=)", lambda: A.rotateX(angle=na), lambda: A.rotateX(na)),
            ("rotateY(angle=)", lambda: A.rotateY(angle=na), lambda: A.rotateY(na)),
            ("rotateZ(angle=)", lambda: A.rotateZ(angle=na), lambda: A.rotateZ(na)),
            ("rotate_euler(phi=,theta=,psi=,order=)", lambda: A.rotate_euler(phi=nphi, theta=nth, psi=nps, order="yzx"),
             lambda: A.rotate_euler(nphi, nth, nps, "yzx")),
            ("rotate_euler(psi=,phi=,theta=) [any order of keywords]", lambda: A.rotate_euler(psi=nps, phi=nphi, theta=nth),
             lambda: A.rotate_euler(nphi, nth, nps, "zxz")),
            ("rotate_nautical(yaw=,pitch=,roll=)", lambda: A.rotate_nautical(yaw=nphi, pitch=nth, roll=nps), lambda: A.rotate_euler(nps, nth, nphi, "zyx")),
            ("rotate_nautical(roll=,yaw=,pitch=) [any order of keywords]", lambda: A.rotate_nautical(roll=nps, yaw=nphi, pitch=nth),
             lambda: A.rotate_nautical(nphi, nth, nps)),
            ("rotate_nautical(yaw, roll=, pitch=) [mixed]", lambda: A.rotate_nautical(nphi, roll=nps, pitch=nth), lambda: A.rotate_nautical(nphi, nth, nps)),
            ("rotate_quaternion(u=,i=,j=,k=)", lambda: A.rotate_quaternion(u=nq[0], i=nq[1], j=nq[2], k=nq[3]), lambda: A.rotate_quaternion(*nq)),
            ("rotate_quaternion(k=,j=,i=,u=) [any order of keywords]", lambda: A.rotate_quaternion(k=nq[3], j=nq[2], i=nq[1], u=nq[0]),
             lambda: A.rotate_quaternion(*nq)),
        ]
        if KN is not None:
            kwforms.append(("rotate_axis(axis=,angle=)", lambda: A.rotate_axis(axis=KN, angle=na), lambda: A.rotate_axis(KN, na)))
            kwforms.append(("rotate_axis(angle=,axis=) [any order of keywords]", lambda: A.rotate_axis(angle=na, axis=KN), lambda: A.rotate_axis(KN, na)))
        for kname, fk, fp in kwforms:
            try:
                got_k = fk()
            except TypeError as e:
                J.exact("documented keyword spelling accepted: " + kname, sname + "|keywords", False, {"exc": str(e)[:160]})
                continue
            J.vec("keyword spelling = positional spelling: " + kname, sname + "|keywords", got_k, fp(), unit, d4)
        if di == 0:
            res.sample({"vector": ls[0].describe(), "angles": [mpmath.nstr(v, 20) for v in (ang, ang2, phi, theta, psi)],
                        "mode": mode.name, "laws_checked_so_far": res.evaluations})
    return res


def finalize(total, tier, seed):
    laws = {c.split("|")[0] for c in total.cells}
    if len(laws) < 40:
        total.inconc(f"only {len(laws)} distinct law/rotation combinations exercised")
    orders = {c.split("|")[2] for c in total.cells if c.startswith("rotate_euler(abc)=rotateA")}
    if len(orders) < 12:
        total.inconc(f"only {len(orders)} of 12 Euler orders exercised")
    return {"laws": len(laws), "euler_orders": sorted(orders)}
