"""C06 — constructors accept the documented coordinate sets and store them verbatim.

Exhaustive over every subset of up to 5 of the 19 recognised coordinate names
(16 663 name sets) for vector.obj, the six object classes, vector.array (dict
and dtype= forms), vector.zip and vector.Array; values sampled over ints,
floats and NumPy scalar types, plus hostile values (bool, str, None, complex).
A reference classifier written from the documentation says which sets are
valid and what they denote (DESIGN §3 C06).
"""
from __future__ import annotations

import itertools
import struct

import numpy

from .. import backends as B
from .. import gen
from .. import refmodel as R
from ..verdict import Result

LEVEL = "exploration"
REPS = {"quick": 1, "thorough": 4}
RULE = ("exhaustive: all 16 663 subsets of <= 5 of the 19 recognised names x {vector.obj, 6 object classes, vector.array dict, "
        "vector.array dtype=, vector.zip, vector.Array}; values sampled (int, float, numpy.float32/64, numpy.int32/64) + hostile "
        "values (bool, str, None, complex) on the valid sets; every call made twice with shared argument objects. A cell is "
        "(constructor, name set); non-trivial when the outcome (vector or exception) was compared with the reference classifier")
ASSUMPTIONS = [
    "the documented sets: (x,y | rho,phi) [+ z | theta | eta [+ t | tau]] with one spelling per coordinate (px py pt pz E e energy M m mass)",
    "array constructors may carry extra names; what they accept must be a valid subset of the given names with values unchanged",
]
NAMES = B.ALL_NAMES
NSHARDS = 32
SHARD_TIMEOUT = {"quick": 1200, "thorough": 7200}
GEN = lambda n: B.GENERIC_OF.get(n, n)  # noqa: E731


def all_sets():
    out = []
    for k in range(1, 6):
        out.extend(itertools.combinations(NAMES, k))
    return out


def classify(names):
    """reference classifier from the documentation -> (system, momentum) or None"""
    g = [GEN(n) for n in names]
    if len(set(g)) != len(g):
        return None  # the same coordinate spelled twice
    gs = set(g)
    if {"x", "y"} <= gs and not ({"rho", "phi"} & gs):
        s = ["xy"]
        rest = gs - {"x", "y"}
    elif {"rho", "phi"} <= gs and not ({"x", "y"} & gs):
        s = ["rhophi"]
        rest = gs - {"rho", "phi"}
    else:
        return None
    lon = rest & {"z", "theta", "eta"}
    tmp = rest & {"t", "tau"}
    if rest - lon - tmp:
        return None
    if len(lon) > 1 or len(tmp) > 1:
        return None
    if tmp and not lon:
        return None
    if lon:
        s.append(next(iter(lon)))
    if tmp:
        s.append(next(iter(tmp)))
    return tuple(s), any(n in B.GENERIC_OF for n in names)


def valid_subsets(names):
    """all (system, momentum, names used) interpretations that are valid subsets of the given names"""
    out = []
    for k in range(2, len(names) + 1):
        for sub in itertools.combinations(names, k):
            c = classify(sub)
            if c:
                out.append((c[0], c[1], sub))
    return out


def plan(tier, seed):
    return [{"i": i, "n": NSHARDS} for i in range(NSHARDS)]


def _bits(v):
    if isinstance(v, (float, numpy.floating)):
        return ("f", struct.pack("<d", float(v)), type(v).__name__)
    return ("o", repr(v), type(v).__name__)


def _values(r, names):
    kinds = [lambda x: int(x * 7) + 1, float, numpy.float64, numpy.float32, numpy.int64, numpy.int32]
    k = r.choice(kinds)
    out = {}
    for n in names:
        x = float(gen.dyadic(r, 0.25, 3, bits=6))
        out[n] = k(x) if k is not float else x
    return out


def run_shard(spec, tier, seed):
    import awkward as ak

    import vector
    import vector.backends.awkward as vba
    from vector._methods import Momentum

    res = Result()
    sets = all_sets()
    mine = sets[spec["i"]::spec["n"]]
    if spec["i"] == 0:
        run_classmethods(res, seed)
    if spec["i"] < len(R.ALL_SYSTEMS):
        run_extras_history(res, seed, R.ALL_SYSTEMS[spec["i"]])
        run_value_history(res, seed, R.ALL_SYSTEMS[spec["i"]])
    r = gen.rng(seed, "C06", spec["i"])
    objclasses = {(d, m): getattr(vector, ("MomentumObject" if m else "VectorObject") + f"{d}D") for d in (2, 3, 4) for m in (False, True)}

    def V(mech, **d):
        res.violation(f"C06/{mech}", d)

    def check_object(v, names, vals, system, mom, ctor):
        """a constructed object vector denotes exactly the supplied values"""
        gsys, stored = B.obj_stored(v)
        if gsys != system:
            V(f"wrong-coordinate-system constructor={ctor}", names=names, got=R.sysname(gsys), expected=R.sysname(system))
            return
        byg = {GEN(n): vals[n] for n in names}
        for cname, sv in zip(R.field_names(system), stored):
            if sv is not byg[cname] and _bits(sv) != _bits(byg[cname]):
                V(f"value-not-stored-verbatim constructor={ctor}", names=names, coordinate=cname, stored=repr(sv), given=repr(byg[cname]))
                return

    for names in mine:
        names = tuple(names)
        key = "+".join(names)
        ref = classify(names)
        vals = _values(r, names)
        # ------------------------------------------------------------------ vector.obj
        res.evaluations += 1
        outs = []
        for rep in range(2):
            try:
                outs.append(("ok", vector.obj(**dict(vals))))
            except TypeError as e:
                outs.append(("TypeError", str(e)[:80]))
            except Exception as e:
                outs.append((type(e).__name__, str(e)[:80]))
        if outs[0][0] != outs[1][0]:
            V("outcome-depends-on-history constructor=obj", names=names, first=outs[0][0], second=outs[1][0])
        o = outs[0]
        if ref is None:
            if o[0] == "ok":
                V("invalid-name-set-accepted constructor=obj " + _why_invalid(names), names=names, got=repr(o[1]))
            elif o[0] != "TypeError":
                V("invalid-name-set-wrong-exception constructor=obj", names=names, exc=o)
        else:
            system, mom = ref
            if o[0] != "ok":
                V("valid-name-set-rejected constructor=obj", names=names, exc=o)
            else:
                v = o[1]
                want = objclasses[(len(system) + 1, mom)]
                if type(v) is not want:
                    V("wrong-class constructor=obj", names=names, got=type(v).__name__, expected=want.__name__)
                else:
                    check_object(v, names, vals, system, mom, "obj")
        res.cell("obj", key)
        # vector.Vector(**names) is documented to be vector.obj
        res.evaluations += 1
        try:
            vv = ("ok", vector.Vector(**dict(vals)))
        except TypeError:
            vv = ("TypeError", None)
        except Exception as e:
            vv = (type(e).__name__, None)
        if vv[0] != o[0] or (vv[0] == "ok" and (type(vv[1]) is not type(o[1]) or B.obj_stored(vv[1])[0] != B.obj_stored(o[1])[0]
                                                or [_bits(x) for x in B.obj_stored(vv[1])[1]] != [_bits(x) for x in B.obj_stored(o[1])[1]])):
            V("Vector-constructor-differs-from-obj", names=names, obj=o[0], Vector=vv[0])
        # ------------------------------------------------------------------ the six object classes
        for (d, m), cls in objclasses.items():
            res.evaluations += 1
            try:
                v = cls(**dict(vals))
                outc = "ok"
            except TypeError:
                outc = "TypeError"
            except Exception as e:
                outc = type(e).__name__
            ok_expected = ref is not None and len(ref[0]) + 1 == d
            if ok_expected:
                if outc != "ok":
                    V(f"valid-name-set-rejected constructor={cls.__name__}", names=names, exc=outc)
                else:
                    if type(v) is not cls:
                        V(f"wrong-class constructor={cls.__name__}", names=names, got=type(v).__name__)
                    check_object(v, names, vals, ref[0], m, cls.__name__)
            else:
                if outc == "ok":
                    V(f"invalid-name-set-accepted constructor=object-class " + _why_invalid(names, d), names=names, cls=cls.__name__, got=repr(v))
                elif outc != "TypeError":
                    V(f"invalid-name-set-wrong-exception constructor={cls.__name__}", names=names, exc=outc)
        res.cell("object-classes", key)
        # ---- the order in which the keywords are written does not matter (accepting, rejecting, what is stored)
        if len(names) > 1:
            def outcome(ctor, kv):
                try:
                    v_ = ctor(**kv)
                except TypeError:
                    return ("TypeError",)
                except Exception as e:
                    return (type(e).__name__,)
                return ("ok", type(v_).__name__, B.obj_stored(v_)[0], tuple(_bits(x) for x in B.obj_stored(v_)[1]))
            vd = dict(vals)
            shuffled = list(names)
            r.shuffle(shuffled)
            orders = {"reversed": list(names[::-1]), "shuffled": shuffled, "rotated": list(names[1:] + names[:1])}
            for cname_, ctor in [("obj", vector.obj)] + [(c.__name__, c) for c in objclasses.values()]:
                base_out = outcome(ctor, {n: vd[n] for n in names})
                for oname, order in orders.items():
                    if tuple(order) == names:
                        continue
                    res.evaluations += 1
                    got_out = outcome(ctor, {n: vd[n] for n in order})
                    if got_out != base_out:
                        V(f"outcome-depends-on-keyword-order constructor={'obj' if cname_ == 'obj' else 'object-class'}",
                          names=names, order=order, cls=cname_, canonical_order=base_out[:2], this_order=got_out[:2])
            res.cell("keyword-order", key)
        # hostile values on valid sets
        if ref is not None:
            for bad in (True, "1.0", None, 1 + 2j, [1.0],
                        # ... and the NumPy scalar counterparts of each rejected kind
                        numpy.True_, numpy.bool_(False), numpy.str_("1.0"), numpy.bytes_(b"1"), numpy.complex128(1 + 2j), numpy.complex64(1),
                        numpy.datetime64("2020-01-01"), numpy.array([1.0]), numpy.array(True), numpy.void(b"\x00")):
                hv = dict(vals)
                hv[names[len(names) // 2]] = bad
                for cname, ctor in [("obj", vector.obj), (objclasses[(len(ref[0]) + 1, ref[1])].__name__, objclasses[(len(ref[0]) + 1, ref[1])])]:
                    res.evaluations += 1
                    try:
                        v = ctor(**hv)
                        V(f"non-numeric-or-boolean-value-accepted constructor={'obj' if cname == 'obj' else 'object-class'} value={type(bad).__name__}",
                          names=names, cls=cname, got=repr(v))
                    except TypeError:
                        pass
                    except Exception as e:
                        V(f"hostile-value-wrong-exception constructor={cname}", names=names, value=repr(bad), exc=type(e).__name__)
            res.cell("hostile-values", key)
        # ------------------------------------------------------------------ array constructors
        subs = valid_subsets(names)
        cols = {n: numpy.array([vals[n], vals[n]], dtype=numpy.float64) + numpy.array([0.0, 1.0]) for n in names}
        dt = numpy.dtype([(n, numpy.float64) for n in names])
        recs = [tuple(float(cols[n][i]) for n in names) for i in range(2)]
        dict_arg = dict(cols)
        ctors = {
            "array-dict": lambda: vector.array(dict_arg),
            "array-dtype": lambda: vector.array(recs, dtype=dt),
            "zip": lambda: vector.zip({n: ak.Array(cols[n]) for n in names}),
            "Array": lambda: vector.Array([{n: float(cols[n][i]) for n in names} for i in range(2)]),
        }
        for cname, f in ctors.items():
            res.evaluations += 1
            outs = []
            for rep in range(2):
                try:
                    outs.append(("ok", f()))
                except (TypeError, ValueError) as e:
                    outs.append(("rejected", type(e).__name__))
                except Exception as e:
                    outs.append(("exc", f"{type(e).__name__}: {e}"[:120]))
            a0, a1 = outs
            if a0[0] == "ok" and a1[0] == "ok":
                if type(a0[1]) is not type(a1[1]) or (cname in ("zip", "Array") and str(a0[1].type) != str(a1[1].type)):
                    mech = "shared-dtype-object-mutated-by-first-construction" if cname == "array-dtype" else f"outcome-depends-on-history constructor={cname}"
                    V(mech, names=names, first=type(a0[1]).__name__, second=type(a1[1]).__name__)
            elif a0[0] != a1[0]:
                V(f"outcome-depends-on-history constructor={cname}", names=names, first=a0, second=a1)
            if cname == "array-dtype" and dt.names != names:
                V("shared-dtype-object-mutated-by-first-construction", names=names, dtype_names_now=list(dt.names or ()))
                dt = numpy.dtype([(n, numpy.float64) for n in names])
            if a0[0] == "exc":
                V(f"unexpected-exception constructor={cname}", names=names, exc=a0[1])
                continue
            if a0[0] == "rejected":
                if ref is not None:
                    V(f"valid-name-set-rejected constructor={cname}", names=names, exc=a0[1])
                continue
            arr = a0[1]
            try:
                backend, gsys, gcols, gmom, n = B.stored_columns(arr)
            except Exception as e:
                V(f"accepted-but-not-a-vector constructor={cname}", names=names, type=type(arr).__name__, exc=repr(e)[:100])
                continue
            if gsys is None:
                V(f"vector-built-from-incomplete-coordinate-set constructor={cname}", names=names, type=type(arr).__name__)
                continue
            # which interpretation? it must be a valid subset of the given names, values unchanged
            matches = []
            for system, mom, sub in subs:
                if system != gsys:
                    continue
                byg = {GEN(x): x for x in sub}
                good = True
                for cn, col in zip(R.field_names(system), gcols):
                    src = cols[byg[cn]]
                    if [float(x) for x in col] != [float(x) for x in src]:
                        good = False
                if good:
                    matches.append((system, mom, sub))
            if not matches:
                V(f"accepted-set-is-not-a-valid-subset-with-unchanged-values constructor={cname}", names=names,
                  got_system=R.sysname(gsys), stored=[[float(x) for x in c] for c in gcols])
                continue
            if ref is not None:
                if gsys != ref[0]:
                    V(f"wrong-coordinate-system constructor={cname}", names=names, got=R.sysname(gsys), expected=R.sysname(ref[0]))
                if gmom != ref[1]:
                    V(f"wrong-flavor constructor={cname}", names=names, got=gmom, expected=ref[1])
                # all constructors agree with vector.obj on dimension/system/flavor (checked through the reference)
            else:
                if not any(m[1] == gmom for m in matches):
                    res.count("flavor_of_superset_interpretation_differs")
            res.cell(cname, key)
        if len(res.samples) < 3 and ref is not None:
            res.sample({"names": names, "values": {k: repr(v) for k, v in vals.items()}, "classified": [R.sysname(ref[0]), ref[1]]})
    return res


def _why_invalid(names, d=None):
    """coarse reason, used as part of the mechanism key"""
    g = [GEN(n) for n in names]
    if len(set(g)) != len(g):
        dup = sorted({x for x in g if g.count(x) > 1})
        pairs = sorted(n for n in names if GEN(n) in dup)
        return "reason=same-coordinate-twice-through-synonyms(" + ",".join(pairs) + ")"
    if classify(names) is not None and d is not None:
        return "reason=wrong-dimension"
    return "reason=other"


def run_classmethods(res, seed):
    """from_<system>() classmethods and module aliases"""
    import vector

    r = gen.rng(seed, "C06cm")
    for system in R.ALL_SYSTEMS:
        dim = len(system) + 1
        mname = "from_" + "".join(R.field_names(system))
        for mom in (False, True):
            cls = getattr(vector, ("MomentumObject" if mom else "VectorObject") + f"{dim}D")
            vals = [r.choice([float(gen.dyadic(r, 0.25, 3)), int(r.randint(1, 5)), -0.0, numpy.float32(1.5)]) for _ in R.field_names(system)]
            res.evaluations += 1
            try:
                v = getattr(cls, mname)(*vals)
            except Exception as e:
                res.violation(f"C06/classmethod-raises method={mname}", {"cls": cls.__name__, "exc": f"{type(e).__name__}: {e}"[:200]})
                continue
            gsys, stored = B.obj_stored(v)
            if type(v) is not cls:
                res.violation(f"C06/classmethod-wrong-class method={mname}", {"cls": cls.__name__, "got": type(v).__name__})
            if gsys != system or any(a is not b and _bits(a) != _bits(b) for a, b in zip(stored, vals)):
                res.violation(f"C06/classmethod-wrong-content method={mname}", {"cls": cls.__name__, "got": repr(v), "given": [repr(x) for x in vals]})
            # wrong number of arguments must raise
            try:
                getattr(cls, mname)(*vals[:-1])
                res.violation(f"C06/classmethod-accepts-missing-argument method={mname}", {"cls": cls.__name__})
            except TypeError:
                pass
            res.cell("classmethod", mname, cls.__name__)
        for other in R.ALL_SYSTEMS:
            if len(other) != len(system):
                oname = "from_" + "".join(R.field_names(other))
                cls = getattr(vector, f"VectorObject{dim}D")
                if hasattr(cls, oname):
                    res.violation("C06/classmethod-of-another-dimension-present", {"cls": cls.__name__, "method": oname})
    # ---- structured dtypes that are not packed in field order (explicit offsets, padding, multi-field selections)
    for system in R.ALL_SYSTEMS:
        dim = len(system) + 1
        for mom in (False, True):
            names = B.names_for(system, mom, r.randrange(3))
            if mom and not any(n in B.GENERIC_OF for n in names):
                continue
            k = len(names)
            cols = {n: numpy.array([float(gen.dyadic(r, 0.25, 3)) + i for _ in range(3)]) for i, n in enumerate(names)}
            layouts = {
                "reversed-offsets": numpy.dtype({"names": list(names), "formats": [numpy.float64] * k, "offsets": [8 * (k - 1 - i) for i in range(k)]}),
                "padded": numpy.dtype({"names": list(names), "formats": [numpy.float64] * k, "offsets": [16 * i + 8 for i in range(k)], "itemsize": 16 * k + 8}),
                "mixed-sizes-aligned": numpy.dtype([(n, numpy.float32 if i % 2 else numpy.float64) for i, n in enumerate(names)], align=True),
            }
            wide = numpy.dtype([("pad0", numpy.int8)] + [(n, numpy.float64) for n in reversed(names)] + [("tail", numpy.int16)])
            for lname, dt in list(layouts.items()) + [("multi-field-selection", None)]:
                res.evaluations += 1
                try:
                    if dt is None:
                        full = numpy.zeros(3, dtype=wide)
                        for n in names:
                            full[n] = cols[n]
                        src = full[list(names)]
                        forms = {"array(view)": lambda: vector.array(src)}
                    else:
                        src = numpy.zeros(3, dtype=dt)
                        for n in names:
                            src[n] = cols[n]
                        recs = [tuple(float(cols[n][i]) for n in names) for i in range(3)]
                        forms = {"array(structured)": lambda: vector.array(src), "array(list, dtype=)": lambda: vector.array(recs, dtype=dt),
                                 # the same with the keywords numpy.array itself takes (documented: "same arguments as numpy.array")
                                 "array(structured, copy=False)": lambda: vector.array(src, copy=False),
                                 "array(structured, subok=True)": lambda: vector.array(src, subok=True),
                                 "array(structured, order='C')": lambda: vector.array(src, order="C"),
                                 "array(structured, ndmin=1)": lambda: vector.array(src, ndmin=1),
                                 "array(list, dtype=, ndmin=1)": lambda: vector.array(recs, dtype=dt, ndmin=1)}
                    for fname, f in forms.items():
                        out = f()
                        _, gsys, gcols, gmom, n_ = B.stored_columns(out)
                        want = classify(tuple(names))
                        if want is None or gsys != want[0] or gmom != want[1]:
                            res.violation(f"C06/non-packed-dtype-wrong-class-or-system layout={lname}", {"names": names, "got": type(out).__name__})
                            continue
                        byg = {B.GENERIC_OF.get(n, n): n for n in names}
                        for cn, col in zip(R.field_names(gsys), gcols):
                            exp = cols[byg[cn]]
                            if lname == "mixed-sizes-aligned":
                                exp = exp.astype(src.dtype[byg[cn]])
                            if [float(x) for x in col] != [float(x) for x in exp]:
                                res.violation(f"C06/non-packed-dtype-values-not-stored-verbatim layout={lname} form={fname}",
                                              {"names": names, "coordinate": cn, "stored": [float(x) for x in col], "given": [float(x) for x in exp]})
                                break
                    res.cell("dtype-layout", lname, "+".join(names))
                except Exception as e:
                    res.violation(f"C06/non-packed-dtype-rejected layout={lname}", {"names": names, "exc": f"{type(e).__name__}: {e}"[:200]})
    if vector.arr is not vector.array or vector.awk is not vector.Array:
        res.violation("C06/module-alias-differs", {"arr": repr(vector.arr), "awk": repr(vector.awk)})
    res.cell("aliases", "arr/awk")


def run_extras_history(res, seed, system):
    """array constructors called again and again in one process with the same coordinate names and *different* extra
    fields (and with other coordinate sets in between): every call carries exactly the extra names it was given, with
    the values it was given, whatever was constructed before"""
    import awkward as ak

    import vector

    r = gen.rng(seed, "C06extras", R.sysname(system))
    sequence = [("weight",), ("charge",), ("charge", "weight"), ("iso", "charge", "weight"), (), ("weight",), ("label_id", "iso"), ("charge",)]
    other_system = R.ALL_SYSTEMS[(R.ALL_SYSTEMS.index(system) + 7) % len(R.ALL_SYSTEMS)]
    for sp in range(3):
        names = tuple(B.names_for(system, True, sp)) if sp else tuple(R.field_names(system))
        if sp and names == tuple(B.names_for(system, True, sp - 1)) and sp > 1:
            continue
        ref = classify(names)
        for cname in ("zip", "Array", "array-dict", "array-dtype"):
            for step, extras in enumerate(sequence):
                allnames = list(names) + list(extras)
                r.shuffle(allnames) if step % 2 else None
                cols = {n: numpy.array([float(gen.dyadic(r, 0.25, 3, bits=6)) + 10 * j for _ in range(3)]) for j, n in enumerate(allnames)}
                res.evaluations += 1
                try:
                    if cname == "zip":
                        out = vector.zip({n: ak.Array(cols[n]) for n in allnames})
                        fields = list(ak.fields(out))
                        read = lambda f: [float(x) for x in ak.to_list(out[f])]  # noqa: E731
                    elif cname == "Array":
                        out = vector.Array([{n: float(cols[n][i]) for n in allnames} for i in range(3)])
                        fields = list(ak.fields(out))
                        read = lambda f: [float(x) for x in ak.to_list(out[f])]  # noqa: E731
                    elif cname == "array-dict":
                        out = vector.array({n: cols[n] for n in allnames})
                        fields = list(numpy.asarray(out).dtype.names)
                        read = lambda f: [float(x) for x in numpy.asarray(out).view(numpy.ndarray)[f]]  # noqa: E731
                    else:
                        dt = numpy.dtype([(n, numpy.float64) for n in allnames])
                        out = vector.array([tuple(float(cols[n][i]) for n in allnames) for i in range(3)], dtype=dt)
                        fields = list(numpy.asarray(out).dtype.names)
                        read = lambda f: [float(x) for x in numpy.asarray(out).view(numpy.ndarray)[f]]  # noqa: E731
                    # an unrelated construction in between (another coordinate set, another extra field)
                    if cname in ("zip", "Array"):
                        vector.zip({**{n: ak.Array(numpy.ones(2)) for n in R.field_names(other_system)}, "flag": ak.Array(numpy.zeros(2))})
                    else:
                        vector.array({**{n: numpy.ones(2) for n in R.field_names(other_system)}, "flag": numpy.zeros(2)})
                except Exception as e:
                    res.violation(f"C06/valid-name-set-with-extra-fields-rejected constructor={cname}",
                                  {"names": allnames, "step": step, "exc": f"{type(e).__name__}: {e}"[:200]})
                    continue
                numpy_mom = True  # every array constructor stores coordinates under their geometric names
                want_fields = [GEN(n) if (numpy_mom and n in names) else n for n in allnames]
                if sorted(fields) != sorted(want_fields):
                    res.violation(f"C06/extra-field-names-depend-on-earlier-constructions constructor={cname}",
                                  {"given": allnames, "result_fields": fields, "step": step, "earlier_extras": [list(e) for e in sequence[:step]]})
                    continue
                bad = None
                for n in allnames:
                    f = GEN(n) if (numpy_mom and n in names) else n
                    if read(f) != [float(x) for x in cols[n]]:
                        bad = n
                        break
                if bad is not None:
                    res.violation(f"C06/field-values-not-stored-verbatim-with-extra-fields constructor={cname}",
                                  {"given": allnames, "field": bad, "step": step})
                    continue
                _, gsys, _, gmom, _ = B.stored_columns(out)
                if gsys != ref[0] or gmom != ref[1]:
                    res.violation(f"C06/wrong-coordinate-system-or-flavor-with-extra-fields constructor={cname}",
                                  {"given": allnames, "got": [R.sysname(gsys) if gsys else None, gmom], "expected": [R.sysname(ref[0]), ref[1]]})
                res.cell("extras-history", cname, "+".join(names), str(step))


def run_value_history(res, seed, system):
    """vector.obj / the object classes / the array constructors called repeatedly in one process with the same names and
    values that compare (and hash) equal but are not the same thing: 1, 1.0, numpy.int64(1), numpy.float32(1), 0, 0.0, -0.0,
    2**53+1 as int.  Each construction holds exactly what *it* was given (the very object for the object backend; dtype and
    bits for arrays), whatever was constructed before"""
    import awkward as ak

    import vector

    names_g = tuple(R.field_names(system))
    dim = len(system) + 1
    seq = [1, 1.0, numpy.int64(1), numpy.float32(1), numpy.float64(1), 0, 0.0, -0.0, numpy.float64(-0.0), 2, 2.0,
           2 ** 53 + 1, float(2 ** 53), numpy.longdouble(1) / 3, 1, -0.0, 0]
    for sp in (0, 1):
        names = tuple(B.names_for(system, True, sp)) if sp else names_g
        if sp and names == names_g:
            continue
        cls = B.obj_class(dim, sp == 1)
        for step, val in enumerate(seq):
            vals = [val] * len(names)
            for cname, build in (("obj", lambda: vector.obj(**dict(zip(names, vals)))),
                                 ("class", lambda: cls(**dict(zip(names, vals))))):
                res.evaluations += 1
                try:
                    o = build()
                except Exception as e:
                    res.violation(f"C06/valid-value-rejected constructor={cname}", {"names": list(names), "value": repr(val), "type": type(val).__name__,
                                                                                    "step": step, "exc": f"{type(e).__name__}: {e}"[:160]})
                    continue
                _, stored = B.obj_stored(o)
                bad = [i for i, x in enumerate(stored) if not (x is val or (type(x) is type(val) and repr(x) == repr(val)))]
                if bad:
                    res.violation(f"C06/value-not-stored-verbatim constructor={cname}",
                                  {"names": list(names), "given": repr(val), "given_type": type(val).__name__, "stored": repr(stored[bad[0]]),
                                   "stored_type": type(stored[bad[0]]).__name__, "step": step, "history": "equal-valued constructions before"})
                res.cell("value-history", cname, "+".join(names), str(step))
        # arrays: dtype and bits of every column as given
        for step, (dt, v) in enumerate([(numpy.int64, 1), (numpy.float64, 1.0), (numpy.float32, 1.0), (numpy.int32, 1), (numpy.float64, -0.0),
                                        (numpy.int64, 0), (numpy.float64, 0.0), (numpy.int64, 2 ** 53 + 1), (numpy.float64, 1.0)]):
            cols = {n: numpy.array([v, v, v], dtype=dt) for n in names}
            for cname, build, read in (
                    ("array-dict", lambda: vector.array(dict(cols)), lambda o, n: numpy.asarray(o).view(numpy.ndarray)[n]),
                    ("zip", lambda: vector.zip({n: ak.Array(c) for n, c in cols.items()}), lambda o, n: ak.to_numpy(o[n]))):
                res.evaluations += 1
                try:
                    o = build()
                    for n in names:
                        col = read(o, GEN(n))
                        if col.dtype != numpy.dtype(dt) or col.tobytes() != cols[n].tobytes():
                            res.violation(f"C06/column-not-stored-verbatim constructor={cname}",
                                          {"names": list(names), "given_dtype": numpy.dtype(dt).name, "stored_dtype": str(col.dtype), "value": repr(v), "step": step})
                            break
                except Exception as e:
                    res.violation(f"C06/valid-value-rejected constructor={cname}", {"names": list(names), "dtype": numpy.dtype(dt).name, "step": step,
                                                                                    "exc": f"{type(e).__name__}: {e}"[:160]})
                res.cell("value-history", cname, "+".join(names), "col" + str(step))


def finalize(total, tier, seed):
    n_obj = sum(1 for c in total.cells if c.startswith("obj|"))
    if not any(c.startswith("classmethod|") for c in total.cells):
        total.inconc("from_<system> classmethods never judged")
    if n_obj < 16663:
        total.inconc(f"only {n_obj} of 16663 name sets reached vector.obj")
    return {"name_sets": n_obj, "exhaustive": n_obj >= 16663}
