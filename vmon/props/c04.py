"""C04 — coordinate conversions and dimension changes lose nothing.

Exhaustive over the configuration lattice (20 source systems x 40 to_*
targets x {60-digit object, float64 object, NumPy, Awkward} x 2 flavors x
keyword spellings); values sampled, including -0.0, subnormal, huge, integer
and NumPy-scalar stored values for the bit-for-bit oracles (DESIGN §3 C04).
"""
from __future__ import annotations

import itertools
import math

import mpmath
import numpy
from mpmath import mpf

from .. import awk
from .. import backends as B
from .. import catalog as C
from .. import gen
from .. import refmodel as R
from ..engine import LVec, mat_mp
from ..mplib import Q
from ..verdict import Result

LEVEL = "exploration"
AWKWARD_REGISTRATION_MIX = True
REPS = {"quick": 1, "thorough": 12}
RULE = ("configuration lattice enumerated exhaustively: 20 source systems x 40 to_* targets (geometric + momentum "
        "spellings) x {mp object, float64 object, NumPy, Awkward} x {generic, momentum}; to_Vector2D/3D/4D, to_2D/3D/4D, "
        "like for every dimension pair and every keyword spelling (z/pz/theta/eta, t/e/E/energy, tau/m/M/mass) with scalar "
        "and array keyword values; values sampled (generic + -0.0/subnormal/1e308/int/NumPy scalars for pass-through). "
        "A cell is (oracle, source system, target, backend, flavor), non-trivial when the oracle compared stored coordinates")
ASSUMPTIONS = [
    "round trips are judged on the representable domain (rho > 0 for theta/eta, t >= 0 for tau) at 1e-35 (mp) / 1e-9 (float64 core)",
    "bit-for-bit means identical IEEE patterns (or identical Q values / ints) read from the stored slots, not through accessors",
]
SHARD_TIMEOUT = {"quick": 900, "thorough": 7200}
LKW = {"z": "z", "pz": "z", "theta": "theta", "eta": "eta"}
TKW = {"t": "t", "e": "t", "E": "t", "energy": "t", "tau": "tau", "m": "tau", "M": "tau", "mass": "tau"}
SPECIALS = [-0.0, 5e-324, 1.5e308, -2.2250738585072014e-308, 1e-300]


def plan(tier, seed):
    return [{"system": list(s), "mom": m} for s in R.ALL_SYSTEMS for m in (False, True)]


def make(backend, system, rows, mom):
    if backend.startswith("numpy-"):
        import vector

        dt = {"int64": numpy.int64, "float32": numpy.float32, "bigendian": ">f8"}[backend.split("-")[1]]
        names = R.field_names(system)
        arr = numpy.zeros(len(rows), dtype=[(n, dt) for n in names])
        for i, n in enumerate(names):
            arr[n] = [row[i] for row in rows]
        cls = getattr(vector, ("MomentumNumpy" if mom else "VectorNumpy") + f"{len(system) + 1}D")
        return [arr.view(cls)]
    if backend.startswith("awkward-"):
        import awkward as ak
        import vector

        dt = {"int64": numpy.int64, "float32": numpy.float32}[backend.split("-")[1]]
        n = len(rows)
        struct = [list(range(n // 2)), [], list(range(n // 2, n))]
        names = B.names_for(system, mom, 0)
        cols = {nm: ak.values_astype(ak.Array(awk.map_struct(struct, lambda r_, i=i: rows[r_][i])), dt) for i, nm in enumerate(names)}
        return [vector.zip(cols)]
    if backend == "mp":
        return [B.mk_mp(system, [Q(mpf(c)) for c in row], mom) for row in rows]
    if backend == "object":
        return [B.mk_obj(system, row, mom) for row in rows]
    if backend == "numpy":
        return [B.mk_numpy_cls(system, rows, mom)]
    n = len(rows)
    return [awk.build(system, rows, mom, [list(range(n // 2)), [], list(range(n // 2, n))], route="zip")]


def readout(vs):
    """list of vectors (objects) or one array -> (system, rows as list of tuples, momentum)"""
    cols_all = None
    system = mom = None
    for v in vs:
        _, system, cols, mom, n = B.stored_columns(v)
        if cols_all is None:
            cols_all = [list(c) for c in cols]
        else:
            for a, c in zip(cols_all, cols):
                a.extend(c)
    rows = list(zip(*cols_all)) if cols_all else []
    return system, rows, mom


def call_all(vs, f):
    return [f(v) for v in vs]


def run_shard(spec, tier, seed):
    import awkward as ak
    from vector._methods import Momentum

    res = Result()
    system = tuple(spec["system"])
    mom = spec["mom"]
    dim = len(system) + 1
    sn = R.sysname(system)
    r = gen.rng(seed, "C04", sn, mom)
    n = 6
    # generic (core) rows for round trips; special rows for bit-for-bit pass-through
    lrows = []
    while len(lrows) < n:
        rv, _ = gen.vec4(r, core=True, forward=True) if dim == 4 else gen.vec(r, dim, core=True)
        try:
            l = LVec(rv, system, mom)
            l.exact_coords()
            lrows.append(l)
        except R.NotRepresentable:
            pass
    core_rows = [l.f64()[0] for l in lrows]
    special_rows = [tuple(r.choice(SPECIALS + [float(c)]) for c in row) for row in core_rows]
    fl = "mom" if mom else "gen"

    def V(mech, **d):
        res.violation(f"C04/{mech}", d)

    for backend in ("mp", "object", "numpy", "awkward", "numpy-int64", "numpy-float32", "awkward-int64", "awkward-float32", "numpy-bigendian"):
        bkey = f"{backend}|{fl}"
        typed = backend.startswith(("numpy-", "awkward-"))
        if backend.startswith("awkward-") and mom and not any(B.MOM_SPELL[x] for x in R.field_names(system)):
            continue  # no momentum spelling exists for this system: vector.zip would build a generic array
        # ------------------------------------------------------------ (i)+(ii) to_* conversions at the same dimension
        src_core = make(backend, system, [l.exact_coords() for l in lrows] if backend == "mp" else core_rows, mom) if not typed else []
        for cname, (tsys, is_m) in C.CONVERSIONS.items():
            tdim = len(tsys) + 1
            if tdim != dim or typed:
                continue
            res.evaluations += 1
            try:
                out = call_all(src_core, lambda v: getattr(v, cname)())
            except Exception as e:
                V(f"conversion-raises target={cname} backend={backend}", source=sn, exc=repr(e)[:300])
                continue
            osys, orows, omom = readout(out)
            if osys != tsys:
                V(f"conversion-target-system target={cname} backend={backend}", source=sn, got=R.sysname(osys), expected=R.sysname(tsys))
                continue
            if omom != mom:
                V(f"conversion-changes-flavor target={cname} backend={backend}", source=sn, got=omom)
            if tsys == system:
                # (ii) own system: stored coordinates unchanged, bit for bit
                _, irows, _ = readout(src_core)
                for a, b in zip(irows, orows):
                    if not all(B.same_bits(x, y) for x, y in zip(a, b)):
                        V(f"own-system-conversion-not-bit-identical target={cname} backend={backend}", source=sn,
                          before=[repr(x) for x in a], after=[repr(x) for x in b])
                res.cell("own-system-bit-identical", sn, cname, bkey)
            # value agrees with the exact vector (mp: formula identity; float: 1e-9)
            tol = mpf(10) ** -35 if backend == "mp" else mpf(10) ** -9
            for l, orow in zip(lrows, orows):
                exact = l.rv if backend == "mp" else l.f64()[1]
                if not R.representable(exact, tsys, mpf(10) ** -6 * R.RV(*exact.comps()).rho if dim > 2 else 0):
                    res.count("skip_target_not_representable")
                    continue
                try:
                    got = B.to_rv(tsys, orow)
                except R.NotRepresentable:
                    res.count("skip_target_not_representable")
                    continue
                unit = max(abs(c) for c in exact.comps())
                err = max(abs(a - b) for a, b in zip(got.comps(), exact.comps())) / unit
                res.err(f"{backend}:conversion", err)
                if not err <= tol:
                    V(f"conversion-value-wrong target={cname} backend={backend}", source=sn, rel_error=mpmath.nstr(err, 5),
                      stored=[repr(x) for x in orow], operand=l.describe())
            # (i) round trip back to the source system
            back_name = "to_" + "".join(R.field_names(system))
            try:
                back = call_all(out, lambda v: getattr(v, back_name)())
                bsys, brows, _ = readout(back)
            except Exception as e:
                V(f"round-trip-raises target={cname} backend={backend}", source=sn, exc=repr(e)[:300])
                continue
            if bsys != system:
                V(f"round-trip-system target={cname} backend={backend}", source=sn, got=R.sysname(bsys))
                continue
            for l, brow in zip(lrows, brows):
                exact = l.rv if backend == "mp" else l.f64()[1]
                if not R.representable(exact, tsys, mpf(10) ** -6 * exact.rho if dim > 2 else 0):
                    continue
                try:
                    got = B.to_rv(system, brow)
                except R.NotRepresentable:
                    continue
                unit = max(abs(c) for c in exact.comps())
                err = max(abs(a - b) for a, b in zip(got.comps(), exact.comps())) / unit
                res.err(f"{backend}:roundtrip", err)
                if not err <= tol:
                    V(f"round-trip-loses-value target={cname} backend={backend}", source=sn, rel_error=mpmath.nstr(err, 5), operand=l.describe())
            res.cell("round-trip", sn, cname, bkey)

        # ------------------------------------------------------------ (iii)-(vi) dimension changes, bit for bit, special values
        if backend == "mp":
            srows = [l.exact_coords() for l in lrows]
        elif typed and not backend.endswith("bigendian"):
            # integer / float32 stored columns: values exactly representable in the column dtype
            srows = [tuple(float(int(c * 4) % 7 + 1) if system[min(i, len(system) - 1)] else 0.0 for i, c in enumerate(row)) for row in core_rows]
        else:
            srows = special_rows
        src = make(backend, system, srows, mom)
        _, irows, _ = readout(src)
        nrow = len(irows)

        def check_passthrough(label, out, keep, added=(), tkey=""):
            """keep: number of leading stored coordinates that must be bit-identical; added: [(coord type, value or list)]"""
            osys, orows, omom = readout(out)
            exp_sys = tuple(system[: keep - 1]) + tuple(t for t, _ in added) if keep >= 2 else None
            if osys != exp_sys:
                V(f"dimension-change-system action={label} backend={backend}", source=sn, got=R.sysname(osys), expected=R.sysname(exp_sys))
                return
            if omom != mom:
                V(f"dimension-change-flavor action={label} backend={backend}", source=sn, got=omom)
            if len(orows) != nrow:
                V(f"dimension-change-length action={label} backend={backend}", source=sn, got=len(orows), expected=nrow)
                return
            for i, (a, b) in enumerate(zip(irows, orows)):
                for j in range(keep):
                    if not B.same_bits(a[j], b[j]):
                        V(f"retained-coordinate-not-bit-identical action={label} backend={backend}", source=sn, index=j,
                          before=repr(a[j]), after=repr(b[j]))
                        return
                for k, (_, val) in enumerate(added):
                    want = val[i] if isinstance(val, (list, numpy.ndarray)) else val
                    g = b[keep + k]
                    ok = (float(g) == float(want) and math.copysign(1, float(g)) == math.copysign(1, float(want))) if type(g) is not Q else (g == want)
                    if not ok:
                        V(f"imputed-coordinate-wrong action={label} backend={backend}", source=sn, got=repr(g), expected=repr(want))
                        return
            res.cell("dimension-change", sn, label, bkey)

        # projections
        for tdim in range(2, dim + 1):
            for nm in (f"to_Vector{tdim}D", f"to_{tdim}D"):
                res.evaluations += 1
                try:
                    out = call_all(src, lambda v: getattr(v, nm)())
                except Exception as e:
                    V(f"projection-raises action={nm} backend={backend}", source=sn, exc=repr(e)[:200])
                    continue
                check_passthrough(nm, out, tdim)
        # like(): against vectors of every dimension, any backend
        for odim in (2, 3, 4):
            other = B.mk_obj(R.SYSTEMS[odim][-1], [1.0, 0.5, 0.25, 2.0][:odim], not mom)
            res.evaluations += 1
            try:
                out = call_all(src, lambda v: v.like(other))
            except Exception as e:
                V(f"like-raises backend={backend}", source=sn, odim=odim, exc=repr(e)[:200])
                continue
            if odim <= dim:
                check_passthrough(f"like({odim}D)", out, odim)
            else:
                added = [("z", 0.0)] if dim == 2 else []
                if odim == 4:
                    added.append(("t", 0.0))
                check_passthrough(f"like({odim}D)", out, dim, added)
        # embeddings with every keyword spelling, scalar and array values
        def kwval(kind):
            x = float(gen.dyadic(r, 0.2, 3)) + 2.0 ** -40   # not representable in float32, not an integer
            zero = r.random() < 0.3  # exactly zero (a falsy value) is a legitimate coordinate
            if zero:
                x = 0.0
            if kind == "array" and (backend in ("numpy", "awkward") or typed):
                vals = [x + 0.125 * i for i in range(nrow)]
                if backend.startswith("numpy"):
                    return numpy.array(vals), vals
                return ak.Array([vals[: nrow // 2], [], vals[nrow // 2:]]), vals
            if backend == "mp":
                return Q(mpf(x)), Q(mpf(x))
            return x, x
        if dim == 2:
            for kw, ctype in LKW.items():
                for kind in ("scalar", "array"):
                    val, want = kwval(kind)
                    for nm in ("to_Vector3D", "to_3D"):
                        res.evaluations += 1
                        try:
                            out = call_all(src, lambda v: getattr(v, nm)(**{kw: val}))
                        except Exception as e:
                            V(f"embedding-raises action={nm}({kw}=) backend={backend}", source=sn, exc=repr(e)[:200])
                            continue
                        check_passthrough(f"{nm}({kw}=)", out, 2, [(ctype, want)])
            out = call_all(src, lambda v: v.to_Vector3D())
            check_passthrough("to_Vector3D()", out, 2, [("z", 0.0 if backend != "mp" else 0.0)])
        if dim in (2, 3):
            lkws = list(LKW.items()) if dim == 2 else [(None, None)]
            for (lkw, ltype), (tkw, ttype) in itertools.product(lkws + ([(None, None)] if dim == 2 else []), list(TKW.items()) + [(None, None)]):
                kwargs, added = {}, []
                if dim == 2:
                    if lkw:
                        v1, w1 = kwval("scalar")
                        kwargs[lkw] = v1
                        added.append((ltype, w1))
                    else:
                        added.append(("z", 0.0))
                if tkw:
                    v2, w2 = kwval("array" if r.random() < 0.3 else "scalar")
                    kwargs[tkw] = v2
                    added.append((ttype, w2))
                else:
                    added.append(("t", 0.0))
                for nm in ("to_Vector4D", "to_4D"):
                    res.evaluations += 1
                    try:
                        out = call_all(src, lambda v: getattr(v, nm)(**kwargs))
                    except Exception as e:
                        V(f"embedding-raises action={nm}({','.join(kwargs)}) backend={backend}", source=sn, exc=repr(e)[:200])
                        continue
                    check_passthrough(f"{nm}({','.join(kwargs) or ''})", out, dim, added)
            # (vi) two keywords of one group raise TypeError
            bad = []
            if dim == 2:
                bad += [dict(z=1.0, eta=0.5), dict(pz=1.0, theta=0.5), dict(z=1.0, pz=1.0)]
            bad += [dict(t=1.0, tau=0.5), dict(E=1.0, mass=0.5), dict(e=1.0, energy=1.0), dict(m=1.0, M=1.0)]
            for kwargs in bad:
                for nm in (["to_Vector3D"] if (dim == 2 and not set(kwargs) & set(TKW)) else []) + ["to_Vector4D"]:
                    res.evaluations += 1
                    try:
                        call_all(src[:1], lambda v: getattr(v, nm)(**kwargs))
                        V(f"conflicting-keywords-accepted action={nm}", source=sn, kwargs=sorted(kwargs), backend=backend)
                    except TypeError:
                        res.cell("conflicting-keywords-rejected", sn, nm + repr(sorted(kwargs)), bkey)
                    except Exception as e:
                        V(f"conflicting-keywords-wrong-exception action={nm}", source=sn, kwargs=sorted(kwargs), exc=repr(e)[:160])
        # (v) to_<system>() on a lower-dimensional vector imputes the keyword or zero
        if dim < 4 and backend != "mp" and not typed:
            for cname, (tsys, is_m) in C.CONVERSIONS.items():
                tdim = len(tsys) + 1
                if tdim <= dim:
                    continue
                kwargs, want_added = {}, []
                names = R.field_names(tsys)
                for gi in range(dim - 1, tdim - 1):
                    ctype = tsys[gi]
                    kwname = {"z": "pz" if is_m else "z", "theta": "theta", "eta": "eta", "t": "energy" if is_m else "t", "tau": "mass" if is_m else "tau"}[ctype]
                    if r.random() < 0.7:
                        x = float(gen.dyadic(r, 0.2, 3))
                        kwargs[kwname] = x
                        want_added.append(x)
                    else:
                        want_added.append(0.0)
                res.evaluations += 1
                try:
                    out = call_all(make(backend, system, core_rows, mom), lambda v: getattr(v, cname)(**kwargs))
                    osys, orows, omom = readout(out)
                except Exception as e:
                    V(f"imputing-conversion-raises target={cname} backend={backend}", source=sn, kwargs=sorted(kwargs), exc=repr(e)[:200])
                    continue
                if osys != tsys:
                    V(f"imputing-conversion-system target={cname} backend={backend}", source=sn, got=R.sysname(osys))
                    continue
                okv = True
                for orow in orows:
                    for k, w in enumerate(want_added):
                        if float(orow[dim + k]) != w:
                            okv = False
                if not okv:
                    V(f"imputing-conversion-value target={cname} backend={backend}", source=sn, kwargs=kwargs, rows=[[repr(x) for x in o] for o in orows[:2]])
                res.cell("imputing-conversion", sn, cname, bkey)
    res.sample({"source": sn, "flavor": fl, "core_row": [repr(x) for x in core_rows[0]], "special_row": [repr(x) for x in special_rows[0]]})
    return res


def finalize(total, tier, seed):
    rt = {tuple(c.split("|")[1:3]) for c in total.cells if c.startswith("round-trip|")}
    want = 2 * 4 + 6 * 12 + 12 * 24
    if len(rt) < want:
        total.inconc(f"only {len(rt)} of {want} (source, same-dimension target) pairs round-tripped")
    for b in ("mp", "object", "numpy", "awkward"):
        if not any(f"|{b}|" in c for c in total.cells):
            total.inconc(f"backend {b} never judged")
    return {"round_trip_pairs": len(rt), "exhaustive": True}
