"""C14 — momentum names are exact synonyms of the geometric names.

Exhaustive walk of the synonym table x backend (object getters and setters,
NumPy field access and item assignment, Awkward fields through all three
construction routes, SymPy) x every coordinate system; values sampled.
Everything is compared bit for bit (DESIGN §3 C14).
"""
from __future__ import annotations

import numpy

from .. import awk
from .. import backends as B
from .. import catalog as C
from .. import engine as E
from .. import gen
from .. import refmodel as R
from .. import workload as W
from ..engine import LVec
from ..verdict import Result

LEVEL = "exploration"
AWKWARD_REGISTRATION_MIX = True
REPS = {"quick": 1, "thorough": 12}
RULE = ("synonym table (24 getter synonyms, 12 transverse synonyms, 20 conversion twins, 10 setter synonyms, 10 field "
        "synonyms) x {object, NumPy, Awkward zip/Array/with_name, SymPy} x 20 coordinate systems, exhaustively; operand "
        "values sampled; plus flavor twins (every catalogued operation on a generic vector and on its momentum twin). "
        "A cell is (synonym or twin, backend, coordinate system), non-trivial when both spellings were evaluated and compared bit for bit")
ASSUMPTIONS = ["bit-for-bit: identical IEEE patterns of every element; for SymPy: structurally identical expressions (srepr)"]
SHARD_TIMEOUT = {"quick": 900, "thorough": 7200}
GETTERS = {"px": "x", "py": "y", "pt": "rho", "pt2": "rho2", "pz": "z", "p": "mag", "p2": "mag2", "pseudorapidity": "eta",
           "E": "t", "e": "t", "energy": "t", "E2": "t2", "e2": "t2", "energy2": "t2",
           "M": "tau", "m": "tau", "mass": "tau", "M2": "tau2", "m2": "tau2", "mass2": "tau2"}
TRANSVERSE = {"et": "Et", "transverse_energy": "Et", "et2": "Et2", "transverse_energy2": "Et2",
              "mt": "Mt", "transverse_mass": "Mt", "mt2": "Mt2", "transverse_mass2": "Mt2"}
SETTERS = {"px": "x", "py": "y", "pt": "rho", "pz": "z", "E": "t", "e": "t", "energy": "t", "M": "tau", "m": "tau", "mass": "tau"}
MINDIM = {"x": 2, "y": 2, "rho": 2, "rho2": 2, "z": 3, "mag": 3, "mag2": 3, "eta": 3, "t": 4, "t2": 4, "tau": 4, "tau2": 4,
          "Et": 4, "Et2": 4, "Mt": 4, "Mt2": 4}


def plan(tier, seed):
    return [{"system": list(s)} for s in R.ALL_SYSTEMS]


def flatbits(x):
    """bit patterns of all elements of a scalar / numpy / awkward / sympy result"""
    import awkward as ak

    if isinstance(x, ak.Array):
        return [B.bits(float(v)) if v is not None else None for v in awk.flat_leaves(ak.to_list(x))]
    if isinstance(x, numpy.ndarray):
        return [x.dtype.str, x.tobytes()]
    if isinstance(x, (float, int, numpy.generic)):
        return [B.bits(x)]
    try:
        import sympy

        if isinstance(x, sympy.Basic):
            return ["sympy", sympy.srepr(x)]
    except Exception:
        pass
    return [repr(x)]


def vecbits(v):
    backend, system, cols, mom, n = B.stored_columns(v)
    return (system, mom, [[B.bits(x) if not isinstance(x, type(None)) else None for x in c] for c in cols])


def run_shard(spec, tier, seed):
    import awkward as ak
    import sympy

    import vector
    import vector.backends.awkward as vba

    res = Result()
    system = tuple(spec["system"])
    dim = len(system) + 1
    sn = R.sysname(system)
    r = gen.rng(seed, "C14", sn)
    n = 6
    ls = []
    while len(ls) < n:
        rv, _ = gen.vec4(r, core=False, wide=True, forward=True) if dim == 4 else gen.vec(r, dim, wide=True)
        try:
            l = LVec(rv, system, True)
            l.exact_coords()
            ls.append(l)
        except R.NotRepresentable:
            pass
    rows = [l.f64()[0] for l in ls]

    def V(mech, **d):
        res.violation(f"C14/{mech}", {"system": sn, **d})

    has_mom_names = any(B.MOM_SPELL[x] for x in R.field_names(system))
    vectors = {"object": B.mk_obj(system, rows[0], True), "numpy": B.mk_numpy_cls(system, rows, True)}
    if has_mom_names:
        for route in ("zip", "Array", "with_name"):
            for sp in range(3):
                vectors[f"awkward:{route}:{sp}"] = awk.build(system, rows, True, awk.structures(n)["jagged"], route=route, spelling=sp)
        vectors["awkward-record"] = awk.build(system, rows, True, list(range(n)), route="zip")[1]
        # mixed spellings: every coordinate spelled on its own (px with y, x with py, pt with phi and M, ...), hand-zipped
        # (with_name keeps the field names) and through vector.zip
        import itertools as _it
        per_coord = [[g] + list(B.MOM_SPELL[g]) for g in R.field_names(system)]
        combos = [c for c in _it.product(*per_coord) if any(x in B.GENERIC_OF for x in c) and any(x not in B.GENERIC_OF and B.MOM_SPELL[x] for x in c)]
        step = max(1, len(combos) // 24)
        for ci, combo in enumerate(combos[::step][:30]):
            for route in ("with_name", "zip"):
                vectors[f"awkward:{route}:mixed{ci}:" + "+".join(combo)] = awk.build(system, rows, True, awk.structures(n)["jagged"], route=route,
                                                                                     names_override=combo)
    syms = [sympy.Symbol(nm, real=True) for nm in R.field_names(system)]
    symcls = getattr(vector, f"MomentumSympy{dim}D")
    vectors["sympy"] = symcls(**dict(zip(R.field_names(system), syms)))

    # ---------------------------------------------------------------- getters
    for bname, v in vectors.items():
        for syn, base in {**GETTERS, **TRANSVERSE}.items():
            if MINDIM[base] > dim:
                continue
            res.evaluations += 1
            try:
                a, b = getattr(v, syn), getattr(v, base)
            except Exception as e:
                V(f"getter-raises synonym={syn} backend={bname.split(':')[0]}", exc=f"{type(e).__name__}: {e}"[:200], variant=bname)
                continue
            if flatbits(a) != flatbits(b):
                V(f"getter-differs synonym={syn} backend={bname.split(':')[0]}", variant=bname, synonym=repr(a)[:120], geometric=repr(b)[:120])
            res.cell(syn, bname.split(":")[0], sn)
        # conversions: to_pxpy... == to_xy...
        for cname, (tsys, is_m) in C.CONVERSIONS.items():
            if not is_m or len(tsys) + 1 != dim:
                continue
            gname = "to_" + "".join(R.field_names(tsys))
            if gname == cname:
                continue
            res.evaluations += 1
            try:
                a, b = getattr(v, cname)(), getattr(v, gname)()
            except Exception as e:
                V(f"conversion-twin-raises {cname} backend={bname.split(':')[0]}", exc=f"{type(e).__name__}: {e}"[:200])
                continue
            if bname == "sympy":
                same = [sympy.srepr(x) for x in _sym_elems(a)] == [sympy.srepr(x) for x in _sym_elems(b)] and type(a) is type(b)
            else:
                same = vecbits(a) == vecbits(b)
            if not same:
                V(f"conversion-twin-differs {cname} backend={bname.split(':')[0]}", variant=bname)
            res.cell(cname, bname.split(":")[0], sn)

    # ---------------------------------------------------------------- keyword synonyms of the embeddings: a coordinate given as
    # pz / E, e, energy / M, m, mass is the coordinate given as z / t / tau, for every value including exactly zero
    if dim < 4:
        groups = [("t", ("E", "e", "energy")), ("tau", ("M", "m", "mass"))]
        lon = [("z", ("pz",))] if dim == 2 else []
        values = [("draw", rows[1][0]), ("0.0", 0.0), ("int 0", 0), ("-0.0", -0.0), ("numpy.float64(0)", numpy.float64(0.0)), ("int 3", 3)]
        targets = [("to_Vector4D", groups + lon), ("to_4D", groups)] + ([("to_Vector3D", lon), ("to_3D", lon)] if dim == 2 else [])
        for bname, v in vectors.items():
            if bname == "sympy" or (bname.startswith("awkward:") and not bname.endswith(":0")):
                continue
            for meth, grps in targets:
                for gname, syns in grps:
                    for vlabel, val in values:
                        try:
                            want = vecbits(getattr(v, meth)(**{gname: val}))
                        except Exception as e:
                            res.count(f"embedding_with_geometric_keyword_raises:{type(e).__name__}")
                            continue
                        for syn in syns:
                            res.evaluations += 1
                            try:
                                got = vecbits(getattr(v, meth)(**{syn: val}))
                            except Exception as e:
                                V(f"embedding-keyword-synonym-raises keyword={syn} value={vlabel}", method=meth, backend=bname,
                                  exc=f"{type(e).__name__}: {e}"[:200])
                                continue
                            if got[0] != want[0] or got[2] != want[2]:
                                V(f"embedding-keyword-synonym-differs keyword={syn} value={vlabel}", method=meth, backend=bname,
                                  via_synonym=repr(got)[:200], via_geometric=repr(want)[:200])
                            res.cell("embedding-keyword:" + syn, meth, bname.split(":")[0], sn, vlabel)

    # ---------------------------------------------------------------- Awkward: synonym-named fields == geometric-named fields
    if has_mom_names:
        ref = awk.build(system, rows, False, awk.structures(n)["jagged"], route="zip")
        for bname, v in vectors.items():
            if not bname.startswith("awkward:"):
                continue
            for acc in [a for a, d in MINDIM.items() if d <= dim and a not in ("Et", "Et2", "Mt", "Mt2")] + ["phi"] + (["theta", "costheta"] if dim >= 3 else []) + (["beta", "gamma", "rapidity"] if dim == 4 else []):
                res.evaluations += 1
                try:
                    if flatbits(getattr(v, acc)) != flatbits(getattr(ref, acc)):
                        V(f"momentum-named-array-gives-different-numbers accessor={acc} route={bname.split(':')[1]}", variant=bname)
                except Exception as e:
                    V(f"momentum-named-array-raises accessor={acc} route={bname.split(':')[1]}", exc=f"{type(e).__name__}: {e}"[:200])
            # no stale coordinate fields in results: every coordinate-named field equals its accessor
            for opname, f in (("rotateZ", lambda x: x.rotateZ(0.25)), ("scale", lambda x: x.scale(1.5)), ("neg2D", lambda x: x.neg2D),
                              ("to_own", lambda x: getattr(x, "to_" + "".join(R.field_names(system)))()),
                              ("to_xy", lambda x: x.to_xy()), ("add", lambda x: x.add(x)), ("unit", lambda x: x.unit())):
                res.evaluations += 1
                try:
                    out = f(v)
                except Exception as e:
                    V(f"momentum-named-array-raises op={opname} route={bname.split(':')[1]}", exc=f"{type(e).__name__}: {e}"[:200])
                    continue
                for fld in ak.fields(out):
                    if fld in B.ALL_NAMES:
                        try:
                            acc = getattr(out, fld)
                        except Exception:
                            acc = None
                        if acc is None or flatbits(acc) != flatbits(out[fld]):
                            V(f"stale-coordinate-field-in-result op={opname} route={bname.split(':')[1]}", field=fld, fields=list(ak.fields(out)))
                            break
                res.cell("fields=accessors:" + opname, bname.split(":")[1], sn)

    # ---------------------------------------------------------------- object setters through synonyms
    for syn, base in SETTERS.items():
        if MINDIM[base] > dim:
            continue
        for l in ls[:3]:
            a, b = B.mk_obj(system, l.f64()[0], True), B.mk_obj(system, l.f64()[0], True)
            val = float(gen.dyadic(r, 0.3, 4))
            res.evaluations += 1
            try:
                setattr(a, syn, val)
                setattr(b, base, val)
            except Exception as e:
                V(f"setter-raises synonym={syn}", exc=f"{type(e).__name__}: {e}"[:200])
                continue
            if vecbits(a) != vecbits(b) or type(a) is not type(b):
                V(f"setter-differs synonym={syn}", via_synonym=repr(a), via_geometric=repr(b))
            # twin histories: the value assigned is the coordinate's *current* value (a "no-op" assignment still makes that
            # coordinate the stored one), zero, or the same value twice; afterwards another coordinate is assigned through
            # its own synonym / geometric name.  After every step both twins hold the same bits in the same system
            others = [(s2, b2) for s2, b2 in SETTERS.items() if MINDIM[b2] <= dim and b2 != base]
            for vname, pick in (("current-value", lambda o: getattr(o, base)), ("zero", lambda o: 0.0), ("twice", lambda o: 1.75)):
                a, b = B.mk_obj(system, l.f64()[0], True), B.mk_obj(system, l.f64()[0], True)
                steps = [(syn, base, pick)] + ([(syn, base, pick)] if vname == "twice" else [])
                if others:
                    s2, b2 = others[(len(syn) + len(vname)) % len(others)]
                    steps.append((s2, b2, lambda o: 2.5))
                    s3, b3 = others[(len(syn) + len(vname) + 3) % len(others)]
                    steps.append((s3, b3, lambda o, b3=b3: getattr(o, b3)))
                res.evaluations += 1
                try:
                    for si, (sy, ba, pk) in enumerate(steps):
                        val_a, val_b = pk(a), pk(b)
                        setattr(a, sy, val_a)
                        setattr(b, ba, val_b)
                        if vecbits(a) != vecbits(b) or type(a) is not type(b):
                            V(f"setter-history-differs synonym={sy} assigned={vname if si == 0 else 'later-step'}",
                              step=si, steps=[f"{x[0]}|{x[1]}" for x in steps], via_synonym=repr(a), via_geometric=repr(b))
                            break
                except (ZeroDivisionError, ValueError):
                    res.count("setter_history_singular")
                except Exception as e:
                    V(f"setter-raises synonym={syn}", exc=f"{type(e).__name__}: {e}"[:200], assigned=vname)
            # sympy setter
        sv1 = symcls(**dict(zip(R.field_names(system), syms)))
        sv2 = symcls(**dict(zip(R.field_names(system), syms)))
        q = sympy.Symbol("q", real=True)
        try:
            setattr(sv1, syn, q)
            setattr(sv2, base, q)
            if [sympy.srepr(x) for x in _sym_elems(sv1)] != [sympy.srepr(x) for x in _sym_elems(sv2)] or _sym_types(sv1) != _sym_types(sv2):
                V(f"setter-differs synonym={syn} backend=sympy", via_synonym=repr(sv1), via_geometric=repr(sv2))
        except Exception as e:
            V(f"setter-raises synonym={syn} backend=sympy", exc=f"{type(e).__name__}: {e}"[:200])
        res.cell("setter:" + syn, "object+sympy", sn)

    # ---------------------------------------------------------------- NumPy field access / assignment through synonyms
    for mom in (True, False):
        arr = B.mk_numpy_cls(system, rows, mom)
        for syn, base in SETTERS.items():
            if base not in R.field_names(system):
                continue
            res.evaluations += 1
            if mom:
                try:
                    cs, cb = arr[syn], arr[base]
                    if not numpy.shares_memory(cs, cb) or cs.tobytes() != cb.tobytes():
                        V(f"numpy-field-access-differs synonym={syn}")
                except Exception as e:
                    V(f"numpy-field-access-raises synonym={syn}", exc=f"{type(e).__name__}: {e}"[:200])
                # column assignment through either spelling writes the same bytes
                a1, a2 = B.mk_numpy_cls(system, rows, True), B.mk_numpy_cls(system, rows, True)
                newcol = numpy.arange(n, dtype=numpy.float64) + 0.5
                try:
                    a1[syn] = newcol
                    a2[base] = newcol
                    if numpy.asarray(a1).tobytes() != numpy.asarray(a2).tobytes():
                        V(f"numpy-column-assignment-differs synonym={syn}")
                except Exception as e:
                    V(f"numpy-column-assignment-raises synonym={syn}", exc=f"{type(e).__name__}: {e}"[:200])
                res.cell("numpy-field:" + syn, "numpy", sn)
        # item / slice assignment with a structured right-hand side, through both spellings of the field names
        gnames = R.field_names(system)
        snames = B.names_for(system, True, 0)
        for label, rhs_names in (("geometric", gnames), ("synonym", snames), ("geometric-reordered", tuple(reversed(gnames))),
                                 ("synonym-reordered", tuple(reversed(snames)))):
            if not mom and label.startswith("synonym"):
                continue
            rhs = numpy.zeros(2, dtype=[(nm, numpy.float64) for nm in rhs_names])
            for nm in rhs_names:
                i = gnames.index(B.GENERIC_OF.get(nm, nm))
                rhs[nm] = [10.0 + i, 20.0 + i]
            target = B.mk_numpy_cls(system, rows, mom)
            expect = numpy.asarray(B.mk_numpy_cls(system, rows, mom)).copy()
            for i, nm in enumerate(gnames):
                expect[nm][1:3] = [10.0 + i, 20.0 + i]
            res.evaluations += 1
            try:
                target[1:3] = rhs
                if numpy.asarray(target).tobytes() != expect.tobytes():
                    V(f"numpy-slice-assignment-writes-wrong-bytes rhs-names={label} flavor={'momentum' if mom else 'generic'}")
            except Exception as e:
                V(f"numpy-slice-assignment-raises rhs-names={label} flavor={'momentum' if mom else 'generic'}", exc=f"{type(e).__name__}: {e}"[:200])
            res.cell("numpy-slice-assignment:" + label, "momentum" if mom else "generic", sn)

    # ---------------------------------------------------------------- structured arrays whose memory layout is not the
    # field order (explicit offsets, padding, mixed item sizes, multi-field selections): the same bytes spelled with
    # geometric and with momentum field names must read the same through every accessor and constructor
    if has_mom_names:
        gn = list(R.field_names(system))
        k = len(gn)

        def layouts(names):
            wide = numpy.dtype([("pad0", numpy.int8)] + [(nm, numpy.float64) for nm in reversed(names)] + [("tail", numpy.int16)])
            return {
                "packed": numpy.dtype([(nm, numpy.float64) for nm in names]),
                "reversed-offsets": numpy.dtype({"names": list(names), "formats": [numpy.float64] * k, "offsets": [8 * (k - 1 - i) for i in range(k)]}),
                "rotated-offsets": numpy.dtype({"names": list(names), "formats": [numpy.float64] * k, "offsets": [8 * ((i + 1) % k) for i in range(k)]}),
                "padded": numpy.dtype({"names": list(names), "formats": [numpy.float64] * k, "offsets": [16 * i + 8 for i in range(k)], "itemsize": 16 * k + 8}),
                "mixed-sizes-aligned": numpy.dtype([(nm, numpy.float32 if i % 2 else numpy.float64) for i, nm in enumerate(names)], align=True),
                "multi-field-selection": wide,
            }

        def fill(dt, names, select):
            src = numpy.zeros(n, dtype=dt)
            for i, nm in enumerate(names):
                src[nm] = [row[i] for row in rows]
            return src[list(names)] if select else src

        for sp in range(3):
            sn_ = B.names_for(system, True, sp)
            if sp and sn_ == B.names_for(system, True, 0):
                continue
            for lname in layouts(gn):
                sel = lname == "multi-field-selection"
                for form in ("vector.array", "view(cls)", "cls(...)"):
                    res.evaluations += 1
                    outs = []
                    for names, mom in ((gn, False), (sn_, True)):
                        try:
                            # a fresh dtype object per construction (viewing as a momentum class renames the fields of
                            # the dtype object it is given: C16's known finding, not this property's subject)
                            src = fill(layouts(names)[lname], names, sel)
                            if form == "vector.array":
                                out = vector.array(src)
                            else:
                                cls = getattr(vector, ("MomentumNumpy" if mom else "VectorNumpy") + f"{dim}D")
                                out = src.view(cls) if form == "view(cls)" else cls(src)
                            vals = {}
                            for i, g_ in enumerate(gn):
                                vals[g_] = numpy.asarray(getattr(out, g_)).astype(numpy.float64).tobytes()
                                vals["field:" + g_] = numpy.asarray(out[names[i]]).astype(numpy.float64).tobytes()
                            if mom:
                                for i, g_ in enumerate(gn):
                                    if names[i] != g_:
                                        vals[g_ + "(synonym)"] = numpy.asarray(getattr(out, names[i])).astype(numpy.float64).tobytes()
                            vals["derived:rho"] = numpy.asarray(out.rho).astype(numpy.float64).tobytes()
                            outs.append(vals)
                        except Exception as e:
                            outs.append(e)
                    g, m = outs
                    mech_tail = f"layout={lname} form={form}"
                    if isinstance(g, Exception) or isinstance(m, Exception):
                        if isinstance(g, Exception) != isinstance(m, Exception):
                            V(f"momentum-named-array-layout-raises-where-geometric-names-work {mech_tail}" if isinstance(m, Exception)
                              else f"geometric-named-array-layout-raises-where-momentum-names-work {mech_tail}",
                              names=sn_, generic=repr(g)[:160], momentum=repr(m)[:160])
                        else:
                            res.count("layout_rejected_in_both_spellings:" + lname)
                        continue
                    expected_first = numpy.array([numpy.float32(row[0]) if False else row[0] for row in rows], dtype=numpy.float64).tobytes()
                    for key in g:
                        if g[key] != m[key]:
                            V(f"momentum-named-array-gives-different-numbers-for-a-layout {mech_tail}", names=sn_, accessor=key)
                            break
                    else:
                        for i, g_ in enumerate(gn):
                            if names[i] != g_ and m.get(g_ + "(synonym)") != m[g_]:
                                V(f"synonym-accessor-differs-for-a-layout {mech_tail}", names=sn_, accessor=names[i])
                                break
                        if g[gn[0]] != expected_first and lname != "mixed-sizes-aligned":
                            V(f"array-layout-read-back-wrong {mech_tail}", names=gn)
                    res.cell("layout-twin:" + lname, form, sn, str(sp))

    # ---------------------------------------------------------------- flavor twins: the flavor never changes any number
    for op in C.ops_for(dim, False):
        odims = op.other_dims(dim) if op.other_dims else (None,)
        d = W.make_draw(op, dim, r, core=True, mp=False, odim=odims[0], momentum=False)
        s_other = R.SYSTEMS[odims[0]][r.randrange(len(R.SYSTEMS[odims[0]]))] if odims[0] else None
        try:
            self_l, args = W.instantiate(d, system, s_other, "yzx" if "order" in op.args else None)
        except R.NotRepresentable:
            continue
        res.evaluations += 1
        outs = []
        for mom in (False, True):
            self_l.momentum = mom
            for a in args:
                if isinstance(a, LVec):
                    a.momentum = mom
            try:
                outs.append(op.call(E.mat_obj(self_l), *[E.mat_obj(a) for a in args]))
            except Exception as e:
                outs.append(e)
        g, m = outs
        if isinstance(g, Exception) or isinstance(m, Exception):
            if type(g) is not type(m):
                V(f"flavor-twin-exception-differs op={op.name}", generic=repr(g)[:120], momentum=repr(m)[:120])
            continue
        if op.result == "vec":
            sg, sm = vecbits(g), vecbits(m)
            if (sg[0], sg[2]) != (sm[0], sm[2]):
                V(f"flavor-twin-numbers-differ op={op.name}", generic=repr(g), momentum=repr(m))
        elif flatbits(g) != flatbits(m):
            V(f"flavor-twin-numbers-differ op={op.name}", generic=repr(g), momentum=repr(m))
        res.cell("twin:" + op.name, "object", sn)
    res.sample({"system": sn, "row": [repr(x) for x in rows[0]], "backends": list(vectors)})
    return res


def _sym_elems(v):
    out = list(v.azimuthal.elements)
    if hasattr(v, "longitudinal"):
        out += list(v.longitudinal.elements)
    if hasattr(v, "temporal"):
        out += list(v.temporal.elements)
    return out


def _sym_types(v):
    return [type(getattr(v, p)).__name__ for p in ("azimuthal", "longitudinal", "temporal") if hasattr(v, p)]


def finalize(total, tier, seed):
    syn = {c.split("|")[0] for c in total.cells}
    need = set(GETTERS) | set(TRANSVERSE)
    missing = sorted(need - syn)
    if missing:
        total.inconc(f"synonyms never compared: {missing}")
    return {"synonyms_walked": len(syn & need), "exhaustive": not missing}
