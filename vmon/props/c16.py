"""C16 — operations never modify their operands.

Snapshot judge attached to the cross-backend sweep (every catalogued operation,
NumPy shapes incl. strided views of larger buffers, Awkward layouts/routes,
mixed pairings): bit-exact snapshots of every operand (values, root buffer,
dtype field names, shape/strides, class/flavor, Awkward form + buffers +
behavior) before the call must equal those after it, whether it returns or
raises.  A dedicated part covers object operands, operators, NumPy functions,
reductions, like/to_VectorND keywords, a.op(a) aliasing, read-only arrays,
pickling, copying and viewing (DESIGN §3 C16).
"""
from __future__ import annotations

import copy
import pickle

import numpy

from .. import awk
from .. import backends as B
from .. import catalog as C
from .. import engine as E
from .. import gen
from .. import refmodel as R
from .. import snap
from .. import sweep
from .. import workload as W
from ..verdict import Result

LEVEL = "exploration"
AWKWARD_REGISTRATION_MIX = True
RULE = ("every catalogued operation x sampled coordinate signatures x array variants of the cross-backend sweep, plus "
        "object operands, operators, numpy functions, reductions, conversions with keywords, aliasing a.op(a), read-only "
        "arrays, pickle/copy/view; operands snapshotted bit-for-bit before and after each call; a cell is (operation or "
        "extra action, signature, variant), non-trivial when the call was executed and all operand snapshots were compared")
ASSUMPTIONS = [
    "explicit in-place operators and assignments are excluded (C15 judges them)",
    "a result that shares memory with an operand is counted but not judged (the statement is about modification)",
]
NSHARDS = {"quick": 48, "thorough": 96}
SHARD_TIMEOUT = {"quick": 1200, "thorough": 10800}


class SnapJudge:
    def __init__(self, res):
        self.res = res
        self.before = None

    def pre(self, ctx):
        self.before = [snap.snap(o) for o in ctx.operands]

    def post(self, ctx, out, exc, var):
        after = [snap.snap(o) for o in ctx.operands]
        self.res.count("operands_snapshotted", len(after))
        for i, (a, b) in enumerate(zip(self.before, after)):
            d = snap.diff(a, b)
            if d:
                self.res.violation(f"C16/operand-modified op={ctx.op.name} variant={sweep._vclass(ctx.variant)}",
                                   {"sig": ctx.sig, "variant": ctx.variant, "operand_index": i, "difference": d,
                                    "raised": repr(exc)[:120] if exc is not None else None})
        if exc is not None:
            self.res.count("calls_that_raised")
        if len(self.res.samples) < 6:
            self.res.sample({"sig": ctx.sig, "variant": ctx.variant, "operands": [type(o).__name__ for o in ctx.operands],
                             "raised": repr(exc)[:80] if exc is not None else None, "operand0_snapshot_keys": sorted(self.before[0])})


def plan(tier, seed):
    items = [(n, d, 1) for n, d, _ in W.cost_table()]
    specs = [{"i": i, "items": b} for i, b in enumerate(W.pack(items, NSHARDS[tier]))]
    specs += [{"extra": True, "system": list(s)} for s in R.ALL_SYSTEMS]
    return specs


def _check(res, what, cell, operands, f):
    before = [snap.snap(o) for o in operands]
    res.evaluations += 1
    exc = None
    out = None
    try:
        out = f()
    except Exception as e:
        exc = e
        res.count("calls_that_raised")
    after = [snap.snap(o) for o in operands]
    for i, (a, b) in enumerate(zip(before, after)):
        d = snap.diff(a, b)
        if d:
            res.violation(f"C16/operand-modified action={what}", {"cell": cell, "operand_index": i, "difference": d,
                                                                  "raised": repr(exc)[:160] if exc is not None else None})
    res.cell(what, cell)
    return out, exc


def run_extra(spec, tier, seed):
    import awkward as ak

    import vector

    res = Result()
    system = tuple(spec["system"])
    dim = len(system) + 1
    sn = R.sysname(system)
    r = gen.rng(seed, "C16x", sn)
    n = 8
    rows = []
    while len(rows) < n:
        rv, _ = gen.vec4(r, core=True, causal="timelike", forward=True) if dim == 4 else gen.vec(r, dim, core=True)
        try:
            rows.append(tuple(float(c) for c in R.to_coords(rv, system)))
        except R.NotRepresentable:
            pass
    for mom in (False, True):
        # ---------------- object operands: every catalogued operation (first two other-systems)
        for op in C.ops_for(dim, mom):
            odims = op.other_dims(dim) if op.other_dims else (None,)
            for odim in odims:
                d = W.make_draw(op, dim, r, core=True, mp=False, odim=odim, momentum=mom)
                for s_other in ([None] if odim is None else [R.SYSTEMS[odim][0], R.SYSTEMS[odim][-1]]):
                    try:
                        self_l, args = W.instantiate(d, system, s_other, "zxz" if "order" in op.args else None)
                    except R.NotRepresentable:
                        continue
                    v = E.mat_obj(self_l)
                    a = [E.mat_obj(x) for x in args]
                    _check(res, "object:" + op.name, f"{sn}|{R.sysname(s_other) if s_other else '-'}|{'mom' if mom else 'gen'}",
                           [v] + a, lambda: op.call(v, *a))
                    if any(isinstance(x, E.LVec) for x in args) and op.other_dims(dim) == (dim,) and odim == dim:
                        # a.op(a): both roles played by the same object
                        _check(res, "object-self-alias:" + op.name, sn, [v], lambda: op.call(v, v, *a[1:]))
        # ---------------- arrays
        A = B.mk_numpy_cls(system, rows, mom)
        big = B.mk_numpy_cls(system, rows + rows, mom)
        view = big[1::2]
        ro = B.mk_numpy_cls(system, rows, mom)
        ro.flags.writeable = False
        jag = awk.build(system, rows, mom, awk.structures(n)["jagged"], route="zip", extra=True)
        rec = awk.build(system, rows, mom, awk.structures(n)["flat"], route="Array", extra=True)[2]
        o = B.mk_obj(system, rows[0], mom)
        # a NumPy vector array that carries an extra (non-coordinate) field
        names_x = list(R.field_names(system))
        raw = numpy.zeros(n, dtype=[(nm, numpy.float64) for nm in names_x] + [("charge", numpy.int64), ("weight", numpy.float32)])
        for i, nm in enumerate(names_x):
            raw[nm] = [row[i] for row in rows]
        raw["charge"] = numpy.arange(n) % 3 - 1
        raw["weight"] = numpy.linspace(0.5, 1.5, n)
        extra_arr = raw.view(getattr(vector, ("MomentumNumpy" if mom else "VectorNumpy") + f"{dim}D"))
        operands = {"numpy": A, "numpy-view": view, "numpy-readonly": ro, "numpy-extra-fields": extra_arr, "awkward-jagged": jag,
                    "awkward-record": rec, "object": o}
        for oname, X in operands.items():
            cell = f"{sn}|{'mom' if mom else 'gen'}|{oname}"
            watch = [X] + ([big] if oname == "numpy-view" else [])
            acts = {
                "neg": lambda: -X, "pos": lambda: +X, "abs": lambda: abs(X), "pow2": lambda: X**2, "pow": lambda: X**1.5,
                "mul": lambda: X * 2.5, "rmul": lambda: 2.5 * X, "div": lambda: X / 2.0, "add-self": lambda: X + X,
                "sub-self": lambda: X - X, "matmul-self": lambda: X @ X, "eq-self": lambda: X == X, "ne-self": lambda: X != X,
                "isclose-self": lambda: X.isclose(X), "like-self": lambda: X.like(X), "dot-self": lambda: X.dot(X),
                "to_Vector2D": lambda: X.to_Vector2D(), "to_2D": lambda: X.to_2D(),
                "numpy.sqrt": lambda: numpy.sqrt(X), "numpy.cbrt": lambda: numpy.cbrt(X), "numpy.square": lambda: numpy.square(X),
                "numpy.absolute": lambda: numpy.absolute(X), "numpy.negative": lambda: numpy.negative(X),
                "numpy.multiply": lambda: numpy.multiply(X, 3.0), "numpy.true_divide": lambda: numpy.true_divide(X, 3.0),
                "numpy.power": lambda: numpy.power(X, 2.5), "repr": lambda: repr(X), "str": lambda: str(X),
                "copy": lambda: copy.copy(X), "deepcopy": lambda: copy.deepcopy(X),
            }
            if dim == 2:
                acts["to_Vector3D(z=)"] = lambda: X.to_Vector3D(z=1.5)
                acts["to_Vector3D(theta=)"] = lambda: X.to_Vector3D(theta=0.5)
                acts["to_Vector4D(pz=,mass=)"] = lambda: X.to_Vector4D(pz=1.0, mass=2.0)
                acts["to_xyz()"] = lambda: X.to_xyz()
            if dim == 3:
                acts["to_Vector4D(t=)"] = lambda: X.to_Vector4D(t=20.0)
                acts["to_Vector4D(M=)"] = lambda: X.to_Vector4D(M=1.0)
                acts["cross-self"] = lambda: X.cross(X)
            if dim >= 3:
                acts["to_Vector3D"] = lambda: X.to_Vector3D()
                acts["rotate_axis-self"] = lambda: X.rotate_axis(X.to_Vector3D(), 0.3)
            if dim == 4:
                acts["boost-self"] = lambda: X.boost_p4(X)
                acts["boostCM-self"] = lambda: X.boostCM_of_p4(X)
                acts["to_Vector4D"] = lambda: X.to_Vector4D()
            if oname.startswith("numpy"):
                acts.update({
                    "sum": lambda: X.sum(), "numpy.sum(axis=0)": lambda: numpy.sum(X, axis=0), "count_nonzero": lambda: numpy.count_nonzero(X),
                    "asarray": lambda: numpy.asarray(X), "asanyarray": lambda: numpy.asanyarray(X), "view-ndarray": lambda: X.view(numpy.ndarray),
                    "getitem-int": lambda: X[0], "getitem-slice": lambda: X[1:3], "getitem-mask": lambda: X[numpy.arange(len(X)) % 2 == 0],
                    "getitem-field": lambda: X[R.field_names(system)[0]], "reshape": lambda: X.reshape(2, -1), "T": lambda: X.T,
                    "allclose-self": lambda: X.allclose(X), "numpy.isclose": lambda: numpy.isclose(X, X),
                    "pickle": lambda: pickle.loads(pickle.dumps(X)), "vector.Array(numpy)": lambda: vector.Array(X) if False else ak.Array(numpy.asarray(X)),
                    "x-object": lambda: X + o, "object-x": lambda: o + X,
                })
            if oname.startswith("awkward"):
                acts.update({
                    "ak.to_list": lambda: ak.to_list(X), "fields": lambda: ak.fields(X), "pickle": lambda: pickle.loads(pickle.dumps(X)),
                    "x-object": lambda: X + o, "object-x": lambda: o + X,
                })
                if oname == "awkward-jagged":
                    acts.update({"ak.sum": lambda: ak.sum(X, axis=-1), "ak.count": lambda: ak.count(X, axis=-1),
                                 "ak.count_nonzero": lambda: ak.count_nonzero(X, axis=-1), "getitem": lambda: X[0], "getitem2": lambda: X[2, 0],
                                 "allclose-self": lambda: X.allclose(X), "ak.flatten": lambda: ak.flatten(X)})
            if oname == "object":
                acts.update({"asarray": lambda: numpy.asarray(X), "asanyarray": lambda: numpy.asanyarray(X), "__array__": lambda: X.__array__(),
                             "pickle": lambda: pickle.loads(pickle.dumps(X))})
            for aname, f in acts.items():
                _check(res, aname, cell, watch, f)
        # ---------------- constructors: the arrays, dicts, dtypes and behavior mappings handed to them are operands too
        mine = {("__typestr__", "custom"): "custom", "marker": 1}
        names_m = B.names_for(system, mom, spelling=1)
        recs = [{nm: row[i] for i, nm in enumerate(names_m)} | {"charge": i % 3 - 1} for i, row in enumerate(rows)]
        src_ak = ak.Array([recs[:3], [], recs[3:]], behavior=mine)
        src_cols = {nm: ak.Array([[row[i] for row in rows[:3]], [], [row[i] for row in rows[3:]]], behavior=mine) for i, nm in enumerate(names_m)}
        src_np = {nm: numpy.array([row[i] for row in rows]) for i, nm in enumerate(names_m)}
        src_struct = numpy.array([tuple(row) for row in rows], dtype=[(nm, numpy.float64) for nm in names_m])
        dt = numpy.dtype([(nm, numpy.float64) for nm in names_m])
        cell = f"{sn}|{'mom' if mom else 'gen'}|constructors"
        for aname, ops_, f in (
                ("vector.Array(array with caller's behavior)", [src_ak, mine], lambda: vector.Array(src_ak)),
                ("vector.Array(list, behavior=caller's)", [recs, mine], lambda: vector.Array(recs, behavior=mine)),
                ("vector.zip(columns with caller's behavior)", [src_cols, mine], lambda: vector.zip(src_cols)),
                ("vector.zip(columns) then rotateZ", [src_cols, mine], lambda: vector.zip(src_cols).rotateZ(0.25)),
                ("vector.array(dict of arrays)", [src_np], lambda: vector.array(src_np)),
                ("vector.array(structured)", [src_struct], lambda: vector.array(src_struct)),
                ("vector.array(list, dtype=)", [dt], lambda: vector.array([tuple(row) for row in rows], dtype=dt)),
                ("vector.obj(**dict)", [recs[0]], lambda: vector.obj(**{k: v for k, v in recs[0].items() if k != "charge"})),
                ("ak.zip(with_name, behavior=vector's)", [src_cols], lambda: ak.zip(src_cols, with_name=f"{'Momentum' if mom else 'Vector'}{dim}D",
                                                                                 behavior=vector.backends.awkward.behavior).rotateZ(0.1))):
            _check(res, "constructor:" + aname, cell, ops_, f)
        # ---------------- non-vector array operands (weights, scale factors, angles) are operands too
        wbase = numpy.linspace(0.5, 2.25, 2 * n)
        WT = {"float64": wbase[:n].copy(), "strided-view": wbase[::2], "0-d": numpy.array(1.75), "length-1": numpy.array([1.75]),
             "float32": wbase[:n].astype(numpy.float32), "int64": numpy.arange(1, n + 1), "read-only": wbase[:n].copy()}
        WT["read-only"].flags.writeable = False
        jw = ak.Array(awk.map_struct(awk.structures(n)["jagged"], lambda i: float(wbase[i])))
        for wname, w in list(WT.items()) + [("awkward-jagged", jw)]:
            for oname, X in (("numpy", A), ("numpy-view", view), ("awkward-jagged", jag), ("object", o)):
                if (wname == "awkward-jagged") != (oname == "awkward-jagged") and not (oname == "object"):
                    continue  # shapes that do not broadcast against each other
                if oname == "awkward-jagged" and wname != "awkward-jagged":
                    continue
                cell = f"{sn}|{'mom' if mom else 'gen'}|{oname}|weights={wname}"
                watch = [X, w] + ([big] if oname == "numpy-view" else []) + ([wbase] if wname == "strided-view" else [])
                wacts = {
                    "v*w": lambda: X * w, "w*v": lambda: w * X, "v/w": lambda: X / w, "v/w twice": lambda: (X / w, X / w)[1],
                    "scale(w)": lambda: X.scale(w), "numpy.multiply(v,w)": lambda: numpy.multiply(X, w),
                    "numpy.multiply(w,v)": lambda: numpy.multiply(w, X), "numpy.true_divide(v,w)": lambda: numpy.true_divide(X, w),
                    "v**w": lambda: X ** w, "numpy.power(v,w)": lambda: numpy.power(X, w), "rotateZ(w)": lambda: X.rotateZ(w),
                    "isclose(rtol=w)": lambda: X.isclose(X, rtol=w),
                }
                if dim >= 3:
                    wacts["rotateX(w)"] = lambda: X.rotateX(w)
                    wacts["scale3D(w)"] = lambda: X.scale3D(w)
                if dim == 4:
                    wacts["boostZ(beta=w/4)"] = lambda: X.boostZ(beta=w / 4)
                    wacts["boostX(gamma=w+1)"] = lambda: X.boostX(gamma=w + 1)
                if dim == 2:
                    wacts["to_Vector3D(z=w)"] = lambda: X.to_Vector3D(z=w)
                    wacts["to_Vector4D(z=w,t=w)"] = lambda: X.to_Vector4D(z=w, t=w)
                for aname, f in wacts.items():
                    _check(res, "weights:" + aname, cell, watch, f)
        # ---------------- viewing a plain structured array as a vector class must not change the viewed array
        names = B.names_for(system, mom, spelling=0)
        plain = numpy.array(rows, dtype=[(nm, numpy.float64) for nm in names])
        cls = getattr(vector, ("MomentumNumpy" if mom else "VectorNumpy") + f"{dim}D")
        out, exc = _check_view(res, f"{sn}|{'mom' if mom else 'gen'}", plain, cls, mom and any(nm in B.GENERIC_OF for nm in names))
        if mom is False and system == ("xy",):
            res.sample({"extra_actions_on": sn, "operand_kinds": list(operands), "n_actions": len(acts)})
    return res


def _check_view(res, cell, plain, cls, renames):
    before = snap.snap(plain)
    res.evaluations += 1
    try:
        out = plain.view(cls)
        exc = None
    except Exception as e:
        out, exc = None, e
    d = snap.diff(before, snap.snap(plain))
    if d:
        only_names = renames and before["bytes"] == snap.snap(plain)["bytes"] and d.startswith((".descr", ".names", ".root_names"))
        res.violation("C16/view-as-momentum-class-renames-fields-of-the-viewed-array" if only_names
                      else "C16/operand-modified action=view(cls)", {"cell": cell, "difference": d})
    res.cell("view(cls)", cell)
    return out, exc


def run_shard(spec, tier, seed):
    if spec.get("extra"):
        return run_extra(spec, tier, seed)
    res = Result()
    sweep.run(spec["items"], tier, seed, res, "C16", judge_values=False, judges=[SnapJudge(res)])
    return res


def finalize(total, tier, seed):
    if total.counters.get("operands_snapshotted", 0) < 1000:
        total.inconc("fewer than 1000 operand snapshots compared in the sweep")
    ops_seen = {c.split("|")[0] for c in total.cells}
    missing = [n for n in C.OPS if n not in ops_seen]
    if missing:
        total.inconc(f"operations never executed under the snapshot judge: {missing[:8]}")
    return {"operand_snapshots_compared": total.counters.get("operands_snapshotted", 0),
            "calls_that_raised": total.counters.get("calls_that_raised", 0)}
