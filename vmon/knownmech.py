"""Classifier of known findings *by mechanism* (never by seed or value),
shared by the monitors that can observe the same defect (DESIGN §1.3)."""
from __future__ import annotations

from . import refmodel as R

MT2 = ("Mt2", "mt2", "transverse_mass2")


def classify(op, self_l, args, got_scalar_is_zero=False):
    """Returns a mechanism suffix if this (operation, operands) is in the exact
    circumstances of a recorded finding, else None.  The caller only consults it
    after its oracle has fired."""
    rv = self_l.rv
    if op.name in MT2 and len(self_l.system) == 3 and self_l.system[2] == "tau":
        try:
            if rv.Mt2 < 0 and got_scalar_is_zero:
                return "mt2-clamped-at-zero-for-tau-storage"
        except Exception:
            pass
    if op.name == "to_beta3" and self_l.system in (("xy", "theta", "t"), ("xy", "eta", "t")) and rv.t < 0:
        return "to_beta3-negative-time-xy-polar-storage"
    return None
