"""Evaluate catalogued operations on logical operands in a chosen backend and
canonicalise the result (DESIGN §2.5–2.6)."""
from __future__ import annotations

import math

import mpmath
import numpy
from mpmath import mpf

from . import backends as B
from . import refmodel as R
from .mplib import Q, WITNESS

VEC_ARGS = ("vec", "p4", "beta3")


class LVec:
    """A logical vector operand: exact Cartesian value + how it is to be stored."""

    __slots__ = ("rv", "system", "momentum", "coords")

    def __init__(self, rv, system, momentum=False, coords=None):
        self.rv = rv
        self.system = tuple(system)
        self.momentum = bool(momentum)
        self.coords = coords  # exact stored coordinates (mpf), filled lazily

    def exact_coords(self):
        if self.coords is None:
            self.coords = R.to_coords(self.rv, self.system)
        return self.coords

    def f64(self):
        """float64 stored coordinates and the RV they *exactly* denote"""
        c = tuple(float(v) for v in self.exact_coords())
        return c, R.from_coords(self.system, c)

    def describe(self):
        return {"system": R.sysname(self.system), "momentum": self.momentum,
                "coords": [mpmath.nstr(c, 30) for c in self.exact_coords()]}


def describe_arg(a):
    if isinstance(a, LVec):
        return a.describe()
    if isinstance(a, dict):
        return {k: mpmath.nstr(v, 20) for k, v in a.items()}
    if isinstance(a, (list, tuple)):
        return [mpmath.nstr(v, 20) for v in a]
    if isinstance(a, str):
        return a
    return mpmath.nstr(a, 30)


# ---------------------------------------------------------------------------
# materialising arguments

_dict_order = [0]


def _conv_scalar(a, conv):
    if isinstance(a, str):
        return a
    if isinstance(a, dict):
        # a mapping argument (transformation matrix) means the same in any insertion order of its keys:
        # rotate through row-major, reversed and column-major insertion orders
        _dict_order[0] += 1
        keys = list(a)
        mode = _dict_order[0] % 3
        if mode == 1:
            keys = keys[::-1]
        elif mode == 2:
            keys = sorted(keys, key=lambda k: (k[1:], k[:1]))
        return {k: conv(a[k]) for k in keys}
    if isinstance(a, (list, tuple)):
        return [conv(v) for v in a]
    return conv(a)


def mat_mp(a):
    if isinstance(a, LVec):
        return B.mk_mp(a.system, a.exact_coords(), a.momentum)
    return _conv_scalar(a, Q)


def mat_obj(a):
    if isinstance(a, LVec):
        return B.mk_obj(a.system, a.f64()[0], a.momentum)
    return _conv_scalar(a, float)


def ref_arg(a, f64=False):
    """argument as the reference model sees it"""
    if isinstance(a, LVec):
        return a.f64()[1] if f64 else a.rv
    if f64:
        return _conv_scalar(a, lambda v: mpf(float(v)))
    return a


# ---------------------------------------------------------------------------
# canonical results

class VecResult:
    __slots__ = ("system", "stored", "rv", "cls", "momentum", "dim")

    def __init__(self, v):
        from vector._methods import Momentum

        self.system, self.stored = B.obj_stored(v)
        self.rv = B.to_rv(self.system, self.stored)
        self.cls = type(v).__name__
        self.momentum = isinstance(v, Momentum)
        self.dim = len(self.system) + 1


def canon(op, res):
    if op.result == "vec":
        return VecResult(res)
    if op.result == "bool":
        if isinstance(res, (bool, numpy.bool_)):
            return bool(res)
        raise TypeError(f"{op.name}: expected bool, got {type(res).__name__}")
    if type(res) is Q:
        return res.v
    if isinstance(res, (int, float, numpy.floating, numpy.integer)):
        return mpf(float(res)) if not isinstance(res, int) else mpf(res)
    if isinstance(res, mpf):
        return res
    raise TypeError(f"{op.name}: expected number, got {type(res).__name__}")


def eval_mp(op, self_l, args):
    WITNESS.reset()
    v = mat_mp(self_l)
    a = [mat_mp(x) for x in args]
    return canon(op, op.call(v, *a))


def eval_obj(op, self_l, args):
    v = mat_obj(self_l)
    a = [mat_obj(x) for x in args]
    return canon(op, op.call(v, *a))


def eval_ref(op, self_l, args, f64=False):
    """Reference value; raises R.Undefined when the definition does not apply."""
    a = [ref_arg(x, f64) for x in args]
    return op.ref(ref_arg(self_l, f64), *a)


# ---------------------------------------------------------------------------
# comparing

def unit_scale(self_l, args, f64=False):
    """largest Cartesian magnitude among the operands"""
    u = mpf(0)
    for a in (self_l, *args):
        if isinstance(a, LVec):
            rv = a.f64()[1] if f64 else a.rv
            u = max(u, *[abs(c) for c in rv.comps()])
    return u if u > 0 else mpf(1)


def arg_gain(op, args):
    """multiplicative growth the scalar arguments can cause (factor, matrix norm, gamma)"""
    g = mpf(1)
    for kind, a in zip(op.args, args):
        if kind == "factor":
            g = max(g, abs(a))
        elif kind in ("mat2", "mat3", "mat4"):
            g = max(g, sum(abs(v) for v in a.values()))
        elif kind == "gamma":
            g = max(g, 2 * abs(a))
        elif kind == "beta":
            g = max(g, 2 / mpmath.sqrt(1 - a * a))
        elif kind == "quat":
            g = max(g, 3 * sum(v * v for v in a))
        elif kind == "beta3":
            b2 = a.rv.mag2
            g = max(g, 2 / mpmath.sqrt(1 - b2)) if b2 < 1 else g
        elif kind == "p4":
            try:
                g = max(g, 2 * abs(a.rv.gamma))
            except Exception:
                pass
    return g


ILL_CONDITIONED_AT_COLLINEAR = ("deltaangle",)


def cond_gain(op, self_l, args, tol, f64=False):
    """extra factor on the tolerance where the *definition* is ill-conditioned: the angle between two vectors is
    arccos of a quotient, whose error grows like 1/sin(angle) and saturates at sqrt(rounding) for collinear vectors"""
    if op.name not in ILL_CONDITIONED_AT_COLLINEAR:
        return mpf(1)
    other = next((a for a in args if isinstance(a, LVec)), None)
    if other is None:
        return mpf(1)
    a = self_l.f64()[1] if f64 else self_l.rv
    b = other.f64()[1] if f64 else other.rv
    try:
        c = R.cos_between(R.project(a, 3), R.project(b, 3))
    except Exception:
        return mpf(1)
    s2 = 1 - c * c
    cap = 1 / mpmath.sqrt(mpf(tol))
    if s2 <= 0:
        return cap
    return max(mpf(1), min(1 / mpmath.sqrt(s2), cap))


def rel_error(op, got, exp, unit, gain=mpf(1)):
    """error of `got` against `exp` relative to the natural scale; bool -> 0/inf"""
    if op.result == "bool":
        return mpf(0) if bool(got) == bool(exp) else mpf("inf")
    if op.result == "vec":
        grv = got.rv if hasattr(got, "rv") else got
        if grv.dim != exp.dim:
            return mpf("inf")
        err = max(abs(a - b) for a, b in zip(grv.comps(), exp.comps()))
        if err != err:
            return mpf("inf")
        scale = max(max(abs(c) for c in exp.comps()), unit**op.power * gain)
        return err / scale
    if got != got:
        return mpf("inf")
    if op.result == "angle":
        return R.angdiff(got, exp)
    scale = max(abs(exp), unit**op.power * gain if op.power else mpf(1))
    return abs(got - exp) / scale


def is_finite_result(res):
    if hasattr(res, "rv"):
        return all(mpmath.isfinite(c) for c in res.rv.comps())
    if isinstance(res, bool):
        return True
    return bool(mpmath.isfinite(res))


def f(x):
    """short float rendering for evidence samples"""
    try:
        return float(x)
    except Exception:
        return str(x)


# ---------------------------------------------------------------------------
# array backends: N cases that share (operation, signature) evaluated in one call

class ElemVec:
    """element i of an array-of-vectors result, canonicalised like VecResult"""

    __slots__ = ("system", "stored", "rv", "cls", "momentum", "dim")

    def __init__(self, system, stored, cls, momentum):
        self.system, self.stored, self.cls, self.momentum = system, stored, cls, momentum
        self.dim = len(system) + 1
        self.rv = R.from_coords(system, stored)


def _stack_scalar(kind, values, conv):
    """values: one logical scalar argument per case -> array-valued argument"""
    v0 = values[0]
    if isinstance(v0, str):
        assert all(v == v0 for v in values)
        return v0
    if isinstance(v0, dict):
        return {k: conv([float(v[k]) for v in values]) for k in v0}
    if isinstance(v0, (list, tuple)):
        return [conv([float(v[i]) for v in values]) for i in range(len(v0))]
    return conv([float(v) for v in values])


def np_args(selfs, args_per_case, shape=None, scalar_mode="array"):
    """Build the NumPy operands for N cases. scalar_mode: 'array' (one scalar per element)
    or 'first' (the first case's scalar for all; callers must then use identical scalars)."""
    n = len(selfs)
    s0 = selfs[0]
    v = B.mk_numpy_cls(s0.system, [l.f64()[0] for l in selfs], s0.momentum, shape)
    out = []
    nargs = len(args_per_case[0])
    for j in range(nargs):
        col = [a[j] for a in args_per_case]
        if isinstance(col[0], LVec):
            out.append(B.mk_numpy_cls(col[0].system, [l.f64()[0] for l in col], col[0].momentum, shape))
        else:
            def conv(vals):
                arr = numpy.array(vals, dtype=numpy.float64)
                return arr.reshape(shape) if shape is not None else arr
            if scalar_mode == "array":
                out.append(_stack_scalar(None, col, conv))
            else:
                out.append(_conv_scalar(col[0], float))
    return v, out


def canon_numpy(op, res, n):
    """-> list of n canonical element results"""
    from vector._methods import Momentum

    if op.result == "vec":
        system, rows = B.numpy_rows(res)
        if len(rows) != n:
            raise ValueError(f"{op.name}: result has {len(rows)} elements, expected {n}")
        cls, mom = type(res).__name__, isinstance(res, Momentum)
        return [ElemVec(system, row, cls, mom) for row in rows]
    arr = numpy.asarray(res)
    flat = arr.reshape(-1)
    if flat.shape[0] != n:
        if flat.shape[0] == 1:  # a scalar broadcast result
            flat = numpy.repeat(flat, n)
        else:
            raise ValueError(f"{op.name}: result has {flat.shape[0]} elements, expected {n}")
    if op.result == "bool":
        if flat.dtype != numpy.bool_:
            raise TypeError(f"{op.name}: expected bool array, got {flat.dtype}")
        return [bool(x) for x in flat]
    return [mpf(float(x)) for x in flat]


def eval_numpy(op, selfs, args_per_case, shape=None):
    v, a = np_args(selfs, args_per_case, shape)
    return canon_numpy(op, op.call(v, *a), len(selfs)), v, a
