"""Helpers for algebraic-law monitors (C09, C10, C11): build operands in the
mp or float64 object backend and compare canonicalised results of two
different public call sequences."""
from __future__ import annotations

import mpmath
from mpmath import mpf

from . import backends as B
from . import engine as E
from . import refmodel as R
from .mplib import Q

MP_ACCEPT, MP_VIOLATE = mpf(10) ** -35, mpf(10) ** -20
F_TOL = mpf(10) ** -9


class Mode:
    """mp: 60-digit object vectors; f64: float64 object vectors; numpy / awkward: the same laws on one-element arrays
    (every public call then goes through the array backend's dispatch, broadcasting and result wrapping); record: on
    Awkward vector records taken from the middle of an array"""

    def __init__(self, name):
        self.name = name
        self.mp = name == "mp"

    def vec(self, l):
        if self.mp:
            return E.mat_mp(l)
        if self.name == "numpy":
            return B.mk_numpy_cls(l.system, [l.f64()[0]], l.momentum)
        if self.name == "awkward":
            mom = l.momentum and any(B.MOM_SPELL[x] for x in R.field_names(l.system))
            return B.mk_awk(l.system, [l.f64()[0]], mom)
        if self.name == "record":
            # an Awkward vector *record* that is not the first element of its array (decoys with other values around it)
            mom = l.momentum and any(B.MOM_SPELL[x] for x in R.field_names(l.system))
            row = l.f64()[0]
            d1 = tuple(c * 0.5 + (0.25 if n not in ("phi", "theta") else 0.0) for c, n in zip(row, R.field_names(l.system)))
            d2 = tuple(c * 0.75 + (0.5 if n not in ("phi", "theta") else 0.0) for c, n in zip(row, R.field_names(l.system)))
            return B.mk_awk(l.system, [d1, row, d2], mom, extra={"charge": [1, -1, 0]})[1]
        return E.mat_obj(l)

    def num(self, x):
        return Q(x) if self.mp else float(x)

    def exact(self, l):
        return l.rv if self.mp else l.f64()[1]


def rv_of(v):
    """canonical Cartesian value of an object-vector result, or of the single element of a one-element array
    (own readout, own conversions)"""
    from vector.backends.object import VectorObject

    if isinstance(v, VectorObject):
        system, stored = B.obj_stored(v)
        return B.to_rv(system, stored), system
    _, system, cols, _, n = B.stored_columns(v)
    if n != 1:
        raise ValueError(f"law operand/result has {n} elements, expected one")
    return B.to_rv(system, [c[0] for c in cols]), system


def num_of(x):
    if type(x) is Q:
        return x.v
    if isinstance(x, (int, float)):
        return mpf(x)
    try:
        import awkward as ak

        if isinstance(x, ak.Array):
            flat = ak.to_list(ak.flatten(x, axis=None))
            if len(flat) != 1:
                raise ValueError(f"scalar law result has {len(flat)} elements")
            return mpf(float(flat[0]))
    except ImportError:  # pragma: no cover
        pass
    import numpy

    a = numpy.asarray(x)
    if a.size != 1:
        raise ValueError(f"scalar law result has {a.size} elements")
    return mpf(float(a.reshape(-1)[0]))


def vec_err(a, b, scale):
    if a.dim != b.dim:
        return mpf("inf")
    e = max(abs(p - q) for p, q in zip(a.comps(), b.comps()))
    if e != e:
        return mpf("inf")
    return e / scale


class Judge:
    def __init__(self, res, prop, mode):
        self.res, self.prop, self.mode = res, prop, mode

    def _decide(self, law, cell, err, detail, gain=mpf(1)):
        res = self.res
        res.evaluations += 1
        res.err(f"{self.mode.name}:{law}", err / gain if gain else err)
        if self.mode.mp:
            bad, grey = err > MP_VIOLATE * gain, err > MP_ACCEPT * gain
        else:
            bad, grey = err > F_TOL * gain, False
        if bad:
            res.violation(f"{self.prop}/law-broken law={law} backend={self.mode.name}",
                          {"cell": cell, "rel_error": mpmath.nstr(err, 6), **detail})
        elif grey:
            res.inconc(f"grey-band discrepancy {mpmath.nstr(err, 5)} in law {law} at {cell}")
        res.cell(law, cell, self.mode.name)
        return not bad

    def vec(self, law, cell, got, exp, scale, detail, gain=mpf(1)):
        """got/exp: object vectors (results of two call sequences) or RVs"""
        try:
            g = got if isinstance(got, R.RV) else rv_of(got)[0]
            e = exp if isinstance(exp, R.RV) else rv_of(exp)[0]
        except R.NotRepresentable:
            # the exact result (e.g. the zero vector in theta storage) is outside the representable domain
            self.res.count("skip_result_not_representable")
            return True
        except Exception as ex:
            # one side of the law is not a usable vector (a field is missing, the class is wrong, ...)
            self.res.evaluations += 1
            self.res.violation(f"{self.prop}/law-broken law={law} backend={self.mode.name}",
                               {"cell": cell, "unusable_result": f"{type(ex).__name__}: {ex}"[:200], **detail})
            self.res.cell(law, cell, self.mode.name)
            return False
        err = vec_err(g, e, scale)
        d = dict(detail)
        if err > (MP_VIOLATE if self.mode.mp else F_TOL) * gain:
            d.update({"lhs": repr(g), "rhs": repr(e)})
        return self._decide(law, cell, err, d, gain)

    def num(self, law, cell, got, exp, scale, detail, gain=mpf(1), angle=False):
        g = got if isinstance(got, mpf) else num_of(got)
        e = exp if isinstance(exp, mpf) else num_of(exp)
        if g != g or e != e:
            err = mpf("inf")
        elif angle:
            err = R.angdiff(g, e)
        else:
            err = abs(g - e) / scale
        d = dict(detail)
        d.update({"lhs": mpmath.nstr(g, 30), "rhs": mpmath.nstr(e, 30)})
        return self._decide(law, cell, err, d, gain)

    def exact(self, law, cell, ok, detail):
        """a law that must hold exactly (bit-for-bit / identity / boolean)"""
        self.res.evaluations += 1
        if not ok:
            self.res.violation(f"{self.prop}/law-broken law={law} backend={self.mode.name}", {"cell": cell, **detail})
        self.res.cell(law, cell, self.mode.name)
        return ok


def maxabs(*rvs):
    m = mpf(0)
    for rv in rvs:
        for c in rv.comps():
            m = max(m, abs(c))
    return m if m > 0 else mpf(1)
