#!/bin/sh
# Re-runs every kept seeded mutant (seeded/<id>/patch.diff) against the check of its property (and any extra checks
# named in seeded/<id>/also.txt) and rewrites seeded/<id>/meta.json "checks_run" + seeded/README.md.
cd "$(dirname "$0")/.." || exit 3
for d in seeded/${1:-C*}/; do
  id=$(basename "$d"); P=${id%-*}
  extra=""; [ -f "$d/also.txt" ] && extra=$(cat "$d/also.txt")
  out=$(selftest/run_mutant.sh "$d/patch.diff" $P $extra 2>&1)
  echo "$out" | sed "s/patch.diff/$id/"
  /venv/bin/python - "$d" "$out" <<'PY'
import json,sys,re
d,out=sys.argv[1],sys.argv[2]
m=json.load(open(d+"/meta.json"))
runs=[]
for line in out.splitlines():
    mm=re.match(r"(CAUGHT|MISSED|BROKEN|INCONCLUSIVE\(\d+\))\s+(C\d+)\s+\S+:?\s*(.*)",line)
    if mm: runs.append({"check":mm.group(2),"result":mm.group(1),"witness":mm.group(3)})
m["checks_run"]=runs
json.dump(m,open(d+"/meta.json","w"),indent=1)
PY
done
/venv/bin/python - <<'PY'
import json,glob,os
rows=[]
for d in sorted(glob.glob("seeded/C*/")):
    m=json.load(open(d+"meta.json"))
    note=m.get("agent_notes","")
    rows.append((os.path.basename(d.rstrip("/")), m["property"], "; ".join(f"{r['check']}: {r['result']}" for r in m["checks_run"])))
with open("seeded/README.md","w") as f:
    f.write("# Seeded changes (written by independent sub-agents from the property text alone)\n\n"
            "Each directory holds `patch.diff` (apply with `git -C /repo apply`), `demo.py` (exit 0 on the unchanged tree, non-zero with the change)\n"
            "and `meta.json` (what it needs to manifest — the agent's own notes — and what was run). All were confirmed on a scratch copy:\n"
            "demo passes clean / fails changed, the repository's 795 stable tests still pass with the change (`tools/confirm_seed.sh`).\n\n"
            "| id | property | quick checks run against the changed tree |\n|---|---|---|\n")
    for r in rows: f.write(f"| {r[0]} | {r[1]} | {r[2]} |\n")
PY
