#!/venv/bin/python
"""Run the repository's own test-suite with the verification guard OFF and
compare with /root/.vp/BASELINE.json's stable_pass list (or the committed copy
in /verif/tools/baseline_stable_pass.json).  Exit 0 iff every stable test passes."""
import json, os, subprocess, sys, tempfile
import xml.etree.ElementTree as ET

HERE = os.path.dirname(os.path.abspath(__file__))
src = "/root/.vp/BASELINE.json"
if os.path.exists(src):
    stable = json.load(open(src))["stable_pass"]
else:
    stable = json.load(open(os.path.join(HERE, "baseline_stable_pass.json")))
repo = os.environ.get("VERIF_REPO", "/repo")
env = dict(os.environ)
env.pop("SCIKIT_HEP_VECTOR_VERIF", None)
with tempfile.TemporaryDirectory() as d:
    xml = os.path.join(d, "junit.xml")
    cmd = ["/venv/bin/python", "-m", "pytest", "-ra", "-q", "-p", "no:cacheprovider", "--timeout=900",
           "--continue-on-collection-errors", f"--junitxml={xml}"]
    env["PYTHONPATH"] = os.path.join(repo, "src")
    p = subprocess.run(cmd, cwd=repo, env=env, capture_output=True, text=True)
    passed = set()
    for tc in ET.parse(xml).getroot().iter("testcase"):
        if not any(ch.tag in ("failure", "error", "skipped") for ch in tc):
            passed.add(f"{tc.get('classname')}::{tc.get('name')}")
missing = [t for t in stable if t not in passed]
print(f"stable_pass={len(stable)} passed_now={len(passed)} stable_not_passing={len(missing)}")
for t in missing[:20]:
    print("  NOT PASSING:", t)
sys.exit(1 if missing else 0)
