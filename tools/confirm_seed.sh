#!/bin/sh
# usage: tools/confirm_seed.sh <PROP> <n> [extra props to run...]
# Confirms a sub-agent's mutant (/tmp/wt/out/<PROP>/mutant<n>.diff + demo<n>.py) on a scratch copy of /repo:
#   demo passes on the clean tree, fails with the change; the repository's stable tests still pass with the change;
# then runs the named quick check(s) against the changed copy and records everything in /verif/seeded/<PROP>-<n>/.
set -u
P=$1; N=$2; shift 2
SRC=${SEED_SRC:-/tmp/wt/out/$P}
HERE=$(cd "$(dirname "$0")/.." && pwd)
SCR=$(mktemp -d /tmp/vseed.XXXXXX)
trap 'rm -rf "$SCR"' EXIT
mkdir -p "$SCR/repo" "$SCR/out"
rsync -a --exclude .git --exclude __pycache__ /repo/ "$SCR/repo/"
[ -f "$SRC/mutant$N.diff" ] && [ -f "$SRC/demo$N.py" ] || { echo "MISSING files for $P $N"; exit 3; }
PYTHONPATH="$SCR/repo/src" /venv/bin/python "$SRC/demo$N.py" > "$SCR/out/demo_clean.log" 2>&1; rc_clean=$?
if ! (cd "$SCR/repo" && patch -p1 -s < "$SRC/mutant$N.diff"); then echo "PATCH-FAILED $P $N"; exit 3; fi
PYTHONPATH="$SCR/repo/src" /venv/bin/python "$SRC/demo$N.py" > "$SCR/out/demo_mut.log" 2>&1; rc_mut=$?
VERIF_REPO="$SCR/repo" /venv/bin/python "$HERE/tools/baseline_off.py" > "$SCR/out/baseline.log" 2>&1; rc_base=$?
echo "$P-$N demo_clean=$rc_clean demo_mutated=$rc_mut baseline_rc=$rc_base ($(tail -1 "$SCR/out/baseline.log" | cut -c1-100))"
results=""
for C in "$P" "$@"; do
  VERIF_REPO="$SCR/repo" VERIF_OUT="$SCR/out" "$HERE/vcheck" "$C" --tier quick > "$SCR/out/$C.log" 2>&1; rc=$?
  if [ $rc -eq 1 ] && grep -q "^VIOLATION property=$C " "$SCR/out/$C.log"; then st="CAUGHT"; w=$(grep -m1 -o 'witness\[[^]]*\]' "$SCR/out/$C.log");
  elif [ $rc -eq 0 ]; then st="MISSED"; w="";
  else st="OTHER($rc)"; w=$(tail -2 "$SCR/out/$C.log" | cut -c1-200); fi
  echo "   $C: $st $w"
  results="$results{\"check\":\"$C\",\"result\":\"$st\",\"witness\":\"$(echo "$w" | sed 's/"/\\"/g')\"},"
done
if [ $rc_clean -eq 0 ] && [ $rc_mut -ne 0 ] && [ $rc_base -eq 0 ]; then
  D="$HERE/seeded/${SEED_ID:-$P-$N}"; mkdir -p "$D"
  cp "$SRC/mutant$N.diff" "$D/patch.diff"; cp "$SRC/demo$N.py" "$D/demo.py"
  /venv/bin/python - "$D" "$P" "$N" "$results" "$SRC/notes.md" <<'PY'
import json,sys,os
d,p,n,results,notes=sys.argv[1:6]
res=json.loads("["+results.rstrip(",")+"]")
note=open(notes).read() if os.path.exists(notes) else ""
json.dump({"property":p,"source":"independent sub-agent given only the property text and a scratch worktree",
 "needs_to_manifest":"see notes (agent's own description below)","agent_notes":note[:4000],
 "confirmed":{"demo_exit_on_clean_tree":0,"demo_fails_with_change":True,"repository_stable_tests_pass_with_change":True,
              "how":"tools/confirm_seed.sh on a scratch copy of /repo (rsync + patch -p1), tools/baseline_off.py with VERIF_REPO"},
 "checks_run":res}, open(os.path.join(d,"meta.json"),"w"), indent=1)
PY
  echo "   kept as seeded/${SEED_ID:-$P-$N}"
else
  echo "   NOT KEPT (demo/baseline conditions not met)"
fi
