#!/venv/bin/python
"""Regenerates /verif/MANIFEST.json from the table below and validates it against the schema."""
import json, os, sys
HERE = os.path.dirname(os.path.dirname(os.path.abspath(__file__)))

CHECKS = {
 "C01": ("metamorphic monitor (cross-signature differential) on 60-digit runs of the real compute layer + dispatch-variant tap",
         "3.C01", "Metamorphic runtime monitor: every public operation is executed on 60-digit object vectors for every coordinate-system signature of the same geometric operands; canonicalised results must agree with the all-Cartesian signature (1e-35; violation >= 1e-20); a tap on _from_signature proves all 2404 dispatch variants were reached. Held = on the sampled operands of every stratum; the real line is sampled, signatures are exhaustive.",
         "mpmath correctness; MpLib adapter mirrors NumPy only at singular points (not judged); baseline signature is Cartesian (shared defects are C02's)"),
 "C02": ("reference-model monitor (independent mpmath model of the documentation) on 60-digit and float64 runs",
         "3.C02", "Reference-model runtime monitor: each operation's result on 60-digit objects (all signatures) and on float64 object/NumPy vectors (exact binary inputs, well-conditioned core) is compared with an independent executable model of the documented definitions.",
         "the model's reading of the documentation (DESIGN 2.2); float64 judged on the well-conditioned core at 1e-9"),
 "C09": ("algebraic-law monitor on public boost methods (mp + float64)", "3.C09",
         "Law monitor: invariance, inverse, composition and cross-spelling identities of boosts are evaluated on the public API for every system of vector and booster, 60-digit and float64; both sides of each law are produced by the library, compared through the monitor's own readout.",
         "tau-stored operands forward timelike; tolerance scaled by gamma^2"),
 "C10": ("algebraic-law monitor on public rotation methods (mp + float64)", "3.C10",
         "Law monitor: isometry, handedness, time untouched bit-for-bit, composition/inverse, and equivalence of rotate_axis/rotateXYZ/quaternion/Euler(12 orders, both cases)/nautical spellings, every coordinate system, 60-digit and float64; Euler additionally against explicit reference matrices.",
         "documented Euler rule as read in DESIGN 2.2"),
 "C11": ("algebraic-law monitor on add/subtract/scale/dot/cross/unit and operator spellings (mp + float64 + arrays)", "3.C11",
         "Law monitor: vector-space, dot, cross, unit laws for every ordered pair of coordinate systems (184 pairs), both flavors, operators and numpy functions; abs/**/sqrt/cbrt/power on object, NumPy and Awkward.",
         "tau-stored operands forward timelike and only added/scaled positively"),
 "C12": ("oracle monitor over generated equal/partially-different pairs, all system pairs, object/NumPy/Awkward and mixed pairings", "3.C12",
         "Runtime oracle: reflexivity, symmetry, != is not ==, same-system == / isclose against stored coordinates, implication and monotonicity in tolerances, operators = methods = numpy functions, arrays = objects element-wise, allclose = all(isclose).",
         "NaN-free finite operands; isclose judged off the tolerance boundary"),
 "C13": ("invariant hook on the dispatch layer (closed bounds on every dispatch) + boundary workload + predicate oracles with margins", "3.C13",
         "Invariant-at-a-hook monitor: every dispatch of phi/deltaphi/theta/deltaangle/rho/mag/rho2/mag2/t2/t during the workload is range-checked; boundary strata on object/NumPy/Awkward/60-digit; causal and angle predicates judged against exact cosines/tau2 outside a 1e-9 margin.",
         "strict/sign contracts judged only outside the margin; magnitudes within [1e-150, 1e150]"),
}
PENDING = ["C03", "C04", "C05", "C06", "C07", "C08", "C14", "C15", "C16", "C17", "C18", "C19", "C20"]

def main():
    checks = []
    for pid, (tech, ref, text, note) in sorted(CHECKS.items()):
        checks.append({
            "property_id": pid,
            "quick_cmd": f"./vcheck {pid} --tier quick",
            "thorough_cmd": f"./vcheck {pid} --tier thorough",
            "evidence_file": f"/verif/evidence/{pid}.json",
            "replay_cmd_template": f"./vcheck {pid} --replay {{path}}",
            "engine": "vmon",
            "level_claimed": {"category": "exploration", "text": text, "design_ref": ref},
            "level_note": note,
            "technique": tech,
        })
    m = {
        "version": 1,
        "setup_cmd": "/venv/bin/python -c \"import mpmath, numpy, awkward, numba, sympy, jsonschema; print('deps ok')\"",
        "hooks": {"guard": "SCIKIT_HEP_VECTOR_VERIF", "enable": "no source hooks: every observation point is tapped from outside (DESIGN 1.2); the variable is exported by ./vcheck for uniformity",
                  "baseline_off_cmd": "/venv/bin/python /verif/tools/baseline_off.py", "source_commits": [], "add_only": True},
        "engines": [{"name": "vmon", "path": "/verif/vmon", "serves_properties": sorted(CHECKS),
                     "kind_free_text": "runtime monitoring: reference-model, metamorphic and law oracles, dispatch taps/hooks, snapshots, history checkers"}],
        "checks": checks,
        "notes": "Runtime monitoring only (DESIGN.md). Exit 0 held / 1 VIOLATION / 2 INCONCLUSIVE. Known findings: /verif/known_findings.json.",
        "not_applicable": [{"property_id": p, "reason": "monitor designed (DESIGN.md section 3) but not built yet in this session; not claimed until it is"} for p in PENDING if p not in CHECKS],
    }
    path = os.path.join(HERE, "MANIFEST.json")
    with open(path, "w") as f:
        json.dump(m, f, indent=1)
    try:
        import jsonschema
        sch = "/root/.vp/MANIFEST.schema.json"
        if os.path.exists(sch):
            jsonschema.validate(m, json.load(open(sch)))
            print("MANIFEST valid:", len(checks), "checks,", len(m["not_applicable"]), "not applicable")
    except ImportError:
        pass

if __name__ == "__main__":
    main()
