#!/venv/bin/python
"""Regenerates /verif/MANIFEST.json from the table below and validates it against the schema."""
import json, os, sys
HERE = os.path.dirname(os.path.dirname(os.path.abspath(__file__)))

CHECKS = {
 "C01": ("metamorphic monitor (cross-signature differential) on 60-digit runs of the real compute layer + dispatch-variant tap",
         "3.C01", "Metamorphic runtime monitor: every public operation is executed on 60-digit object vectors for every coordinate-system signature of the same geometric operands; canonicalised results must agree with the all-Cartesian signature (1e-35; violation >= 1e-20); a tap on _from_signature proves all 2404 dispatch variants were reached. Held = on the sampled operands of every stratum; the real line is sampled, signatures are exhaustive. A float64 layer repeats the comparison on well-conditioned float64 objects (collinear and exact-zero strata included) at 1e-9 x conditioning.",
         "mpmath correctness; MpLib adapter mirrors NumPy only at singular points (not judged); baseline signature is Cartesian (shared defects are C02's)"),
 "C02": ("reference-model monitor (independent mpmath model of the documentation) on 60-digit and float64 runs",
         "3.C02", "Reference-model runtime monitor: each operation's result on 60-digit objects (all signatures) and on float64 object/NumPy vectors (exact binary inputs, well-conditioned core) is compared with an independent executable model of the documented definitions; every catalogued call is repeated with its arguments passed under the documented keyword names, and the live signatures (names, order, kinds, defaults) of all 528 public methods are compared with the pinned documented ones; argument objects (matrix mappings, arrays) changed in place between two calls must be read afresh.",
         "the model's reading of the documentation (DESIGN 2.2); float64 judged on the well-conditioned core at 1e-9"),
 "C03": ("differential monitor: object vs NumPy vs Awkward on identical float64 inputs across shapes/layouts/routes/pairings", "3.C03",
         "Cross-backend differential runtime monitor: every operation on 8-element batches as object calls, NumPy arrays (6 shapes, strided views, mixed with objects) and Awkward arrays/records (9 layouts, 3 construction routes incl. hand-named momentum records, mixed pairings); element i must equal the object result (1e-11), shapes/list structure/missing positions/record names preserved. Physical layout twins of the same logical array (ListArray with gaps, IndexedArray, non-zero offsets, byte/bit-masked and unmasked option nodes, strided leaves; big-endian / padded / strided / float32 / int NumPy columns), extra fields deeper than the vectors, out= forms of the ufuncs with several layouts of the out array, arrays re-read after in-place field assignment; alternate shards run with vector.register_awkward().",
         "object backend is the reference (C02 judges it); well-conditioned operands"),
 "C04": ("exhaustive configuration lattice + bit-for-bit stored-coordinate oracles (mp, float64 object, NumPy, Awkward)", "3.C04",
         "Runtime oracle over the exhaustive lattice of 20 sources x 40 to_* targets x 4 backends x 2 flavors and every projection/embedding keyword spelling: round trips (1e-35 / 1e-9), own-system conversions and retained coordinates bit-for-bit, imputed keyword values in the named coordinate type, conflicting keywords rejected.",
         "representable domain for round trips; special bit patterns only for pass-through oracles"),
 "C05": ("rule-model monitor over the type lattice (classes, record names, coordinate types, exception types)", "3.C05",
         "Type-level runtime monitor: a small rule model predicts backend/flavor/dimension/coordinate-system/exception of every call in the lattice (all signatures x flavor pairs on objects; all backend pairings incl. records; all dimension pairings; operators vs methods); observations are compared with it.",
         "axis of rotate_axis does not count; scalar result containers not judged"),
 "C06": ("reference classifier from the documentation over all 16663 name sets x 11 constructors, each call twice with shared arguments", "3.C06",
         "Exhaustive runtime enumeration of every subset of <= 5 of the 19 coordinate names for obj, the six object classes, array (dict, dtype=), zip, Array; outcomes compared with a classifier written from the docs; stored values read back bit-for-bit; hostile values; history independence.",
         "array constructors may accept supersets (extra fields) as stated"),
 "C14": ("exhaustive synonym-table walk, bit-for-bit comparison of both spellings on object/NumPy/Awkward/SymPy + flavor twins", "3.C14",
         "Runtime oracle: each synonym getter/setter/field/index/conversion is evaluated next to its geometric spelling on every backend and coordinate system and compared bit-for-bit (SymPy: srepr); results of momentum-named Awkward arrays must have no stale coordinate fields; flavor twins give identical numbers.",
         "bitwise equality, no tolerance"),
 "C15": ("history checker: random assignment / in-place / failing-step histories against an explicit model of the stored slots", "3.C15",
         "History monitor: after every step of generated histories (assignments through every spelling, += -= *= /= with operands of any system/flavor, failing steps) the stored slots are compared with an explicit model: assigned coordinate and partner bit-for-bit, other groups' slot identity, predicted coordinate system, identity/class kept, in-place result = functional result read in the own system (and = reference model at 60 digits), raising steps leave every slot identical.",
         "tau-stored vectors are never subtracted from / scaled negatively (outside the representable domain)"),
 "C17": ("differential oracle: vector reducers vs plain reducers on object-backend Cartesian components", "3.C17",
         "Runtime oracle: numpy.sum/.sum()/count_nonzero and ak.sum/ak.count/ak.count_nonzero on vector arrays in all 20 systems must equal the same plain reducer applied to the elements' Cartesian components from the object backend, for every axis/keepdims/mask_identity, empty and missing lists; exact for integer Cartesian storage; unsupported arguments raise.",
         "1e-9 tolerance for non-integer storage"),
 "C19": ("differential oracle against the plain structured ndarray for every index/view/copy/pickle action", "3.C19",
         "Runtime oracle: every integer index, slice, mask, fancy index, reshape/T/ravel/view/copy, field and synonym index, asarray/asanyarray/__array__, pickle protocol 0-5 and copy is applied to the vector array and to the plain structured array; classes, systems, flavors, bytes and continued functionality are compared; extra-field / float32 / int / big-endian / Fortran / strided / empty arrays, NumPy-integer and 0-d indices, iteration, re-casts to other vector classes, repeated array forms of an object, and a history of coordinate-class constructions with non-canonical dtypes.",
         "bitwise comparison"),
 "C20": ("global-state snapshots at every dispatch (tap hook) and around every call; sys.monitoring failpoints in all 82 dispatch functions; 16-thread stress with yield injection vs sequential run", "3.C20",
         "State monitor + history/determinism checker: process state (numpy error state/errcall/print options, warnings filters, awkward.behavior, registration flag, dispatch maps, class links) is compared before/after every dispatch and call under 5 prior configurations, on returning, raising and singular calls; registration idempotence in fresh processes; an exception injected at every line of every dispatch function; K-call lists run by 16 threads with forced GIL hand-offs must reproduce the sequential results bit-for-bit; racing lazy first imports from fresh processes; the same call lists (with differently named extra fields) re-run on rebuilt operands, in another order, and in four fresh processes each in its own order (results compared call by call).",
         "schedules are those the stress produced (counted in the evidence); CPython GIL"),
 "C16": ("snapshot monitor: bit-exact operand snapshots before/after every call of the cross-backend sweep + dedicated actions", "3.C16",
         "Invariant monitor: operands (object slots, NumPy root buffers/dtype names/shape/strides/class, Awkward form+buffers+behavior) are snapshotted before and after every catalogued call in every array variant, and around operators, numpy functions, reductions, conversions with keywords, aliasing a.op(a), read-only arrays, pickle/copy/view; non-vector array operands (weights, exponents, angles, keyword arrays) and constructor inputs (arrays, dicts, dtype objects, behavior mappings) are operands too.",
         "result/operand memory sharing is counted, not judged"),
 "C18": ("layout generator + structure/field/record oracles on Awkward results", "3.C18",
         "Runtime oracle on 12 Awkward layouts x 3 routes x all operations: list structure, missing positions and nesting type preserved; extra fields (numeric, string, nested list) carried unchanged by single-array operations; two-vector arithmetic returns coordinates only; record names; records taken out of arrays behave like the equivalent object for every operation.",
         "boosts/rotate_axis not judged on carrying extra fields"),
 "C07": ("differential monitor: generated probe programs interpreted vs numba.njit, over the observed overload inventory", "3.C07",
         "Differential runtime monitor: the set of numba-supported attributes/methods/functions is recorded by wrapping numba.extending.overload* before the backend is imported; generated probe programs (attributes, unary methods incl. 12 literal Euler orders, binary methods, chains, in-jit construction, operators/NumPy functions, loops over Awkward arrays) are run interpreted and compiled for every coordinate system and flavor of self and sampled systems/flavors of the other operand; class, flavor, dimension, system exact, values at 1e-9.",
         "py_func is the reference; programs it rejects are not judged; faulthandler on (supplementary)"),
 "C08": ("differential monitor: SymPy expressions evaluated at rational points vs the real compute layer at 60 digits, regularity observed by a witness", "3.C08",
         "Differential runtime monitor: for every operation/system/flavor the SymPy backend's expression is substituted with exact rationals and evaluated to 50 digits, then compared (1e-12) with the 60-digit result of the same operation on the real compute code; the MpLib witness says, per point, whether a clamp, NaN replacement or sign convention was exercised; such a point is skipped (and counted) only if that convention is among the ones pinned for that operation at regular operands (vmon/sympy_conventions.json), otherwise it is compared like any other.",
         "float literals in the compute layer limit agreement to ~1e-15; isclose and symbolic polar scale factors are documented limitations"),
 "C09": ("algebraic-law monitor on public boost methods (mp + float64)", "3.C09",
         "Law monitor: invariance, inverse, composition and cross-spelling identities of boosts are evaluated on the public API for every system of vector and booster, 60-digit and float64; both sides of each law are produced by the library, compared through the monitor's own readout; accuracy laws without a gamma^2 allowance (boostX/Y/Z(gamma=), boosts by a mass-stored booster, generic vs explicit spellings) against the 60-digit reference for gamma up to 1e6.",
         "tau-stored operands forward timelike; tolerance scaled by gamma^2"),
 "C10": ("algebraic-law monitor on public rotation methods (mp + float64)", "3.C10",
         "Law monitor: isometry, handedness, time untouched bit-for-bit, composition/inverse, and equivalence of rotate_axis/rotateXYZ/quaternion/Euler(12 orders, both cases)/nautical spellings, every coordinate system, 60-digit and float64; Euler additionally against explicit reference matrices; every rotation also called by its documented keyword names.",
         "documented Euler rule as read in DESIGN 2.2"),
 "C11": ("algebraic-law monitor on add/subtract/scale/dot/cross/unit and operator spellings (mp + float64 + arrays)", "3.C11",
         "Law monitor: vector-space, dot, cross, unit laws for every ordered pair of coordinate systems (184 pairs), both flavors, operators and numpy functions; abs/**/sqrt/cbrt/power on object, NumPy and Awkward.",
         "tau-stored operands forward timelike and only added/scaled positively"),
 "C12": ("oracle monitor over generated equal/partially-different pairs, all system pairs, object/NumPy/Awkward and mixed pairings", "3.C12",
         "Runtime oracle: reflexivity, symmetry, != is not ==, same-system == / isclose against stored coordinates, implication and monotonicity in tolerances, operators = methods = numpy functions, arrays = objects element-wise, allclose = all(isclose).",
         "NaN-free finite operands; isclose judged off the tolerance boundary"),
 "C13": ("invariant hook on the dispatch layer (closed bounds on every dispatch) + boundary workload + predicate oracles with margins", "3.C13",
         "Invariant-at-a-hook monitor: every dispatch of phi/deltaphi/theta/deltaangle/rho/mag/rho2/mag2/t2/t during the workload is range-checked; boundary strata on object/NumPy/Awkward/60-digit; causal and angle predicates judged against exact cosines/tau2 outside a 1e-9 margin; the stored phi/theta/rho of every vector returned by a vector-valued operation (operands near the +-pi cut) are range-checked too.",
         "strict/sign contracts judged only outside the margin; magnitudes within [1e-150, 1e150]"),
}
PENDING = []

def main():
    checks = []
    for pid, (tech, ref, text, note) in sorted(CHECKS.items()):
        checks.append({
            "property_id": pid,
            "quick_cmd": f"./vcheck {pid} --tier quick",
            "thorough_cmd": f"./vcheck {pid} --tier thorough",
            "evidence_file": f"/verif/evidence/{pid}.json",
            "replay_cmd_template": f"./vcheck {pid} --replay {{path}}",
            "engine": "vmon",
            "level_claimed": {"category": "exploration", "text": text, "design_ref": ref},
            "level_note": note,
            "technique": tech,
        })
    m = {
        "version": 1,
        "setup_cmd": "/venv/bin/python -c \"import mpmath, numpy, awkward, numba, sympy, jsonschema; print('deps ok')\"",
        "hooks": {"guard": "SCIKIT_HEP_VECTOR_VERIF", "enable": "no source hooks: every observation point is tapped from outside (DESIGN 1.2); the variable is exported by ./vcheck for uniformity",
                  "baseline_off_cmd": "/venv/bin/python /verif/tools/baseline_off.py", "source_commits": [], "add_only": True},
        "engines": [{"name": "vmon", "path": "/verif/vmon", "serves_properties": sorted(CHECKS),
                     "kind_free_text": "runtime monitoring: reference-model, metamorphic and law oracles, dispatch taps/hooks, snapshots, history checkers"}],
        "checks": checks,
        "notes": "Runtime monitoring only (DESIGN.md). Exit 0 held / 1 VIOLATION / 2 INCONCLUSIVE. Known findings: /verif/known_findings.json.",
        "not_applicable": [{"property_id": p, "reason": "monitor designed (DESIGN.md section 3) but not built yet in this session; not claimed until it is"} for p in PENDING if p not in CHECKS],
    }
    path = os.path.join(HERE, "MANIFEST.json")
    with open(path, "w") as f:
        json.dump(m, f, indent=1)
    try:
        import jsonschema
        sch = "/root/.vp/MANIFEST.schema.json"
        if os.path.exists(sch):
            jsonschema.validate(m, json.load(open(sch)))
            print("MANIFEST valid:", len(checks), "checks,", len(m["not_applicable"]), "not applicable")
    except ImportError:
        pass

if __name__ == "__main__":
    main()
