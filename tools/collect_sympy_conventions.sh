#!/bin/sh
# Regenerates vmon/sympy_conventions.json: the "operation:convention" pairs that the *pinned* tree meets when the numeric
# compute layer evaluates an operation at regular operands (timelike, forward, off-axis, positive factors) -- the documented
# limitations of the SymPy backend, per operation.  Run only on the unchanged tree; never run by a check.
# usage: tools/collect_sympy_conventions.sh [seeds...]        (TIER=thorough for the thorough tier)
cd "$(dirname "$0")/.." || exit 3
OUT=$(mktemp -d /tmp/vconv.XXXXXX)
for sd in ${@:-0 1 2 3 4 5 6 7}; do
  VERIF_C08_COLLECT=1 VERIF_SEED=$sd VERIF_OUT=$OUT ./vcheck C08 --tier ${TIER:-quick} > $OUT/log.$sd 2>&1
  cp $OUT/C08.json $OUT/C08.$sd.json 2>/dev/null || cp $OUT/evidence/C08.json $OUT/C08.$sd.json
done
/venv/bin/python - "$OUT" <<'PY'
import json,glob,sys
cur=set(json.load(open("vmon/sympy_conventions.json"))["pairs"])
new=set()
for f in glob.glob(sys.argv[1]+"/C08.*.json"):
    new|=set(json.load(open(f))["coverage"].get("conventions_met_at_regular_operands",[]))
print("already pinned:",len(cur),"seen now:",len(new),"added:",sorted(new-cur))
json.dump({"comment":"operation:convention pairs met by the pinned tree at regular operands (tools/collect_sympy_conventions.sh)","pairs":sorted(cur|new)},open("vmon/sympy_conventions.json","w"),indent=0)
PY
rm -rf "$OUT"
